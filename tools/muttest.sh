#!/bin/sh
# usage: tools/muttest.sh <patch.diff> <tier> <prop>...   - runs the checks against a scratch copy of /repo with the patch applied
# (VF_REPO points the extraction and the native replay at the copy, VF_OUT keeps evidence/replays out of /verif; /repo is untouched)
PATCH="$(readlink -f "$1")"; TIER="$2"; shift 2
D=/root/scratch/mut.$$
mkdir -p "$D/repo" "$D/out"
git -C /repo archive HEAD | tar -x -C "$D/repo"
(cd "$D/repo" && patch -p1 -s < "$PATCH") || { echo "patch failed"; rm -rf "$D"; exit 9; }
cd "$(dirname "$0")/.."
for p in "$@"; do
  VF_REPO="$D/repo" VF_OUT="$D/out" ./vcheck run "$p" --tier "$TIER" > "$D/out/$p.log" 2>&1
  rc=$?
  grep -v "^  obligation" "$D/out/$p.log" | cut -c1-300 | tail -${MUT_LINES:-4}
  if [ -n "$MUT_KEEP" ]; then mkdir -p "$MUT_KEEP"; cp -r "$D/out/." "$MUT_KEEP/"; fi
  echo "[$p exit=$rc]"
done
rm -rf "$D"
