import sys, time
sys.path.insert(0, '/verif')
from vf import sym, harness, spec
from vf.interp import Interp
from vf.harness import *
import z3

def run_pair(shL, shR, stats):
    I = Interp()
    m = I.module('sigtools._signatures')
    def run(ctx, r):
        L = mk_sig(I, ctx, 'l', shL); R = mk_sig(I, ctx, 'r', shR)
        ctx.add(L.funcs[0].t != R.funcs[0].t)
        r.inputs = (L, R); r.interp = I
        run_unit(I, m.ns['merge'], [L.sig, R.sig], [], r)
    for r in explore(run):
        stats['paths'] += 1
        if r.outcome == 'limit':
            stats['limits'].append((shL, shR, r.limit)); continue
        if r.outcome == 'raise':
            stats['raise'] += 1
            stats['exc'][r.exc.typname] = stats['exc'].get(r.exc.typname, 0) + 1
            continue
        if r.outcome != 'return': continue
        L, R = r.inputs
        res = sig_view(r.value); lv = sig_view(L.sig); rv = sig_view(R.sig)
        c, cons = mk_call(L.names + R.names)
        for label, pre in (('M1', spec.pure(Z3Ops, c)), ('M2', z3.And(spec.role_consistent(Z3Ops, [lv, rv]), spec.noncolliding(Z3Ops, res, [lv, rv], c)))):
            vc = VC(label, cons + [pre, spec.accepts(Z3Ops, res, c)], z3.And(spec.accepts(Z3Ops, lv, c), spec.accepts(Z3Ops, rv, c)))
            st, model = discharge(r.ctx, vc, stats)
            if st != 'unsat': stats['bad'].append((label, shL, shR, st, [str(x) for x in r.ctx.pc]))

if __name__ == '__main__':
    maxp, maxk, maxq, maxtot = map(int, sys.argv[1:5])
    stats = dict(paths=0, bad=[], limits=[], exc={}); stats['raise'] = 0
    t = time.time()
    shs = shapes(maxp, maxk, maxq, maxtot)
    pairs = [(a, b) for a in shs for b in shs]
    if len(sys.argv) > 5:
        import random; random.seed(0); pairs = random.sample(pairs, int(sys.argv[5]))
    for a, b in pairs: run_pair(a, b, stats)
    print('shapes', len(shs), 'pairs', len(pairs), 'paths', stats['paths'], 'raise', stats['raise'], stats['exc'], 'obl', stats.get('obligations'), 'bad', len(stats['bad']), 'limits', len(stats['limits']), 'time', round(time.time() - t, 1))
    for b in stats['bad'][:5]: print(b)
    for b in stats['limits'][:5]: print(b)
