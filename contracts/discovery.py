"""Contracts of automatic discovery (C05 second sentence, C06 call-shape extraction; C05 name resolution).

 _autoforwards.resolve_name (module level)                      tier P  (marker kind enumerated, names / presence in
        co_freevars, globals, bound arguments and attribute presence symbolic)
   post:python_scoping        a Name resolves like Python does at run time: the closure cell when the name is a free
                              variable of the function (an empty cell: unresolvable), otherwise the function's globals;
                              an Arg resolves to the bound argument; an Attribute to getattr of the resolved owner;
                              anything else is unresolvable (UnresolvableName, or Unknown(obj) when unknown=True)
 _autoforwards.CallListerVisitor  (whole class as extracted: __init__, process_parameters, visit_*, process_Call,
        resolve_name, has_hide_starargs, get_starargs/get_kwargs, Namespace)   tier B
        (program TEMPLATES enumerated - statement kinds, contexts, nesting; every identifier in them is a solver
        variable, so one path covers every spelling / aliasing of the star parameters, parameters and locals)
   post:call_shape        C06  every forwarding call of the main scope is recorded, in source order, with the callee
                               expression, the number of explicit positional arguments and the keyword names written
   post:star_flags        C05/C06  use_varargs (use_varkwargs) holds EXACTLY when the call passes the function's own
                               *args (**kwargs) by name as its single star argument and that name still denotes the
                               pristine parameter at that point: not rebound, deleted, augmented, used as a loop / with /
                               comprehension target, shadowed by a nested parameter, captured by ``nonlocal`` and rebound,
                               (for **kwargs) read or handed to other code, nor tainted by a method call on it;
                               otherwise a present star argument is recorded as hidden
   raises:nothing         C07  the visitor raises no exception on a function node
 binder table (C05)       tier P over the ASDL grammar of the running interpreter (trusted table: which fields bind a name
        in the function scope / open a parameter scope, DESIGN Appendix B)
   table:binder_handled   every binding construct is handled by the real visitor class: replayed natively with a generated
                              three-line program
"""
import ast
import itertools

import z3

from vf import sym, world, harness
from vf.sym import SymName, SymDict, SymRef, PyExc, EngineLimit, NameS, RefS, Opaque
from vf.interp import Interp, Inst, IClass
from vf.harness import VC
from vf.objects import SymObj
from .common import clause

UR = '_autoforwards.resolve_name'
UV = '_autoforwards.CallListerVisitor'
R_SCOPE = clause(UR, 'post:python_scoping', ['C05', 'C06'], 'P')
V_SHAPE = clause(UV, 'post:call_shape', ['C06'], 'B')
V_FLAGS = clause(UV, 'post:star_flags', ['C05', 'C06'], 'B')
V_RAISE = clause(UV, 'raises:nothing', ['C07', 'C05'], 'B')
T_BIND = clause(UV, 'table:binder_handled', ['C05', 'C06', 'C07'], 'P')      # (an exception out of the visitor escapes sigtools.signature: C07)


# =========================================================================== module-level resolve_name
class Cell:
    def __init__(self, value, empty):
        self.value = value
        self.empty = empty

    def _vf_getattr(self, interp, name):
        if name == 'cell_contents':
            if sym.CTX().decide(self.empty):
                raise PyExc(ValueError, ('Cell is empty',))
            return self.value
        raise PyExc(AttributeError, (name,))


class CodeObj:
    def __init__(self, freevars):
        self.co_freevars = freevars


MARKERS = ('Name', 'Arg', 'Attribute', 'Unknown')


def make_resolve_runner(marker, unknown, want=None):
    I = Interp()
    ma = I.module('sigtools._autoforwards')
    env = {'interp': I, 'mode': 'resolve', 'marker': marker, 'unknown': unknown}

    def run(ctx, r):
        env['r'] = r
        n = SymName(z3.Const('name', NameS))
        fv = [SymName(z3.Const('freevar%d' % i, NameS)) for i in range(2)]
        ctx.add(fv[0].t != fv[1].t)
        cells = [Cell(SymRef(z3.Const('cell%d' % i, RefS), 'cell%d' % i), z3.Bool('cell%d_empty' % i)) for i in range(2)]
        gk = SymName(z3.Const('global_name', NameS))
        gv = SymRef(z3.Const('global_value', RefS), 'global_value')
        g = SymDict()
        g.items_ = [(gk, gv)]
        ak = SymName(z3.Const('arg_name', NameS))
        av = SymRef(z3.Const('arg_value', RefS), 'arg_value')
        args = SymDict()
        args.items_ = [(ak, av)]
        func = SymObj('func', 'function', defaults={'__code__': CodeObj(tuple(fv)), '__globals__': g, '__closure__': tuple(cells)})
        attr_value = SymRef(z3.Const('attr_value', RefS), 'attr_value')
        owner = SymObj('owner', 'instance', slots={'the_attr': objects_slot('owner', attr_value)})
        env.update(n=n, fv=fv, cells=cells, gk=gk, gv=gv, ak=ak, av=av, owner=owner, attr_value=attr_value)
        if marker == 'Name':
            obj = I.instantiate(ma.ns['Name'], [n], [])
        elif marker == 'Arg':
            obj = I.instantiate(ma.ns['Arg'], [n], [])
        elif marker == 'Attribute':
            # the owner is itself resolved (an Arg bound to ``owner``)
            args.items_.append((SymName(z3.Const('owner_name', NameS)), owner))
            ctx.add(args.items_[1][0].t != ak.t)
            inner = I.instantiate(ma.ns['Arg'], [args.items_[1][0]], [])
            obj = I.instantiate(ma.ns['Attribute'], [inner, 'the_attr'], [])
        else:
            obj = I.instantiate(ma.ns['Unknown'], [], [])
        env['obj'] = obj
        harness.run_unit(I, ma.ns['resolve_name'], [obj, func, args], [('unknown', unknown)], r)
    return run, env


def objects_slot(name, value):
    from vf.objects import Slot
    return Slot(z3.Bool('inst_%s_attr' % name), z3.Bool('cls_%s_attr' % name), value, value, cls_may_raise=False)


def resolve_vcs(env, want):
    r, I = env['r'], env['interp']
    out = []
    if want is not None and not any(p in want for p in R_SCOPE.props):
        return out
    marker, unknown = env['marker'], env['unknown']
    ma = I.module('sigtools._autoforwards')
    n, fv, cells = env['n'], env['fv'], env['cells']
    # expected: (resolvable condition, [(condition, value)])
    if marker == 'Name':
        in_fv = [n.t == f.t for f in fv]
        cases = [(z3.And(in_fv[i], *[z3.Not(c) for c in in_fv[:i]], z3.Not(cells[i].empty)), cells[i].value) for i in range(2)]
        free = z3.Or(*in_fv)
        cases.append((z3.And(z3.Not(free), n.t == env['gk'].t), env['gv']))
    elif marker == 'Arg':
        cases = [(n.t == env['ak'].t, env['av'])]
    elif marker == 'Attribute':
        s = env['owner'].slots['the_attr']
        inst0 = env['owner'].entry['the_attr'][0] if env['owner'].entry else s.inst
        cases = [(z3.Or(s.inst if not isinstance(s.inst, bool) else z3.BoolVal(s.inst), s.cls), env['attr_value'])]
    else:
        cases = []
    resolvable = z3.Or(*[c for c, _ in cases]) if cases else z3.BoolVal(False)
    tag = ':%s:unknown=%s' % (marker, unknown)
    if r.outcome == 'raise':
        is_un = isinstance(r.exc.typ, IClass) and r.exc.typ.name == 'UnresolvableName'
        out.append(VC(R_SCOPE.full + tag + ':raises_only_UnresolvableName_when_asked', [], z3.BoolVal(bool(is_un) and not unknown), R_SCOPE.props))
        out.append(VC(R_SCOPE.full + tag + ':unresolvable', [], z3.Not(resolvable), R_SCOPE.props))
        return out
    v = r.value
    if isinstance(v, Inst) and v._cls.name == 'Unknown' and v is not env['obj']:
        out.append(VC(R_SCOPE.full + tag + ':Unknown_only_when_unresolvable', [], z3.And(z3.BoolVal(bool(unknown)), z3.Not(resolvable)), R_SCOPE.props))
        out.append(VC(R_SCOPE.full + tag + ':Unknown_carries_marker', [], z3.BoolVal(v._d.get('source') is env['obj']), R_SCOPE.props))
        return out
    goal = z3.Or(*[z3.And(c, z3.BoolVal(v is val)) for c, val in cases]) if cases else z3.BoolVal(False)
    out.append(VC(R_SCOPE.full + tag, [], goal, R_SCOPE.props))
    return out


def resolve_replay(env, vc, model):
    """native witness for the Name case: a closure variable and a global of the same name"""
    if env['marker'] != 'Name':
        return dict(status='no-replay', op='discovery:resolve')
    from vf.concrete import real_sigtools
    real_sigtools()
    from sigtools import _autoforwards
    ns = {}
    exec(compile('probe = "global value"\ndef outer():\n    probe = "closure value"\n    def inner():\n        return probe\n    return inner\ninner = outer()\n'
                 'def plain():\n    return probe\n', '<vf-resolve>', 'exec'), ns)
    bad = []
    got = _autoforwards.resolve_name(_autoforwards.Name('probe'), ns['inner'], {})
    if got != 'closure value':
        bad.append(('post:python_scoping', "Name('probe') in a function that closes over probe resolved to %r (Python: the closure cell)" % (got,)))
    got = _autoforwards.resolve_name(_autoforwards.Name('probe'), ns['plain'], {})
    if got != 'global value':
        bad.append(('post:python_scoping', "Name('probe') in a function without closure resolved to %r" % (got,)))
    return dict(status='reproduced' if bad else 'no-replay', op='discovery:resolve', violated=[list(b) for b in bad])


# =========================================================================== the visitor on program templates
class Prog:
    """a function template: parameter names and body; ``sites``: the forwarding calls of interest with their oracle"""

    def __init__(self):
        self.va = SymName(z3.Const('va', NameS))
        self.vk = SymName(z3.Const('vk', NameS))
        self.p0 = SymName(z3.Const('p0', NameS))
        self.ids = {}
        self.events = []        # source-order list of ('kill', id-term, roles) / ('site', site) / scopes

    def ident(self, tag):
        if tag not in self.ids:
            self.ids[tag] = SymName(z3.Const('id_' + tag, NameS))
        return self.ids[tag]


def N(x, ctx=None):
    return ast.Name(id=x, ctx=ctx or ast.Load())


def call_node(P, callee, star, dstar, pos=(), kws=(), two_stars=False):
    args = [N(a) for a in pos]
    if star is not None:
        args.append(ast.Starred(value=N(star), ctx=ast.Load()))
        if two_stars:
            args.append(ast.Starred(value=N(P.ident('other_star')), ctx=ast.Load()))
    keywords = [ast.keyword(arg=k, value=N(v)) for k, v in kws]
    if dstar is not None:
        keywords.append(ast.keyword(arg=None, value=N(dstar)))
    return ast.Call(func=N(callee), args=args, keywords=keywords)


KILLERS = ('assign', 'augassign', 'delete', 'for_target', 'with_target', 'handover', 'subscript_store', 'method_call', 'read', 'comp_target',
           'nested_def_param', 'nonlocal_rebind', 'unrelated')
CONTEXTS = ('expr', 'return', 'assign_value', 'if_body', 'try_body', 'with_body', 'listcomp', 'argument', 'lambda', 'nested_def', 'two_stars',
            'nested_def_argument', 'lambda_argument')


def killer_stmt(P, kind, z):
    """statement of the given kind mentioning identifier z; returns (stmt, [(role, z)]) roles: 'store' (binds), 'load'"""
    c1 = ast.Constant(value=1)
    if kind == 'assign':
        return ast.Assign(targets=[N(z, ast.Store())], value=c1), [('store', z)]
    if kind == 'augassign':
        return ast.AugAssign(target=N(z, ast.Store()), op=ast.Add(), value=c1), [('store', z)]
    if kind == 'delete':
        return ast.Delete(targets=[N(z, ast.Del())]), [('store', z)]
    if kind == 'for_target':
        return ast.For(target=N(z, ast.Store()), iter=ast.Constant(value=()), body=[ast.Pass()], orelse=[]), [('store', z)]
    if kind == 'with_target':
        return ast.With(items=[ast.withitem(context_expr=ast.Constant(value=None), optional_vars=N(z, ast.Store()))], body=[ast.Pass()]), [('store', z)]
    if kind == 'handover':
        return ast.Expr(value=ast.Call(func=N('other_function'), args=[N(z)], keywords=[])), [('load', z)]
    if kind == 'subscript_store':
        return ast.Assign(targets=[ast.Subscript(value=N(z), slice=ast.Constant(value='k'), ctx=ast.Store())], value=c1), [('load', z)]
    if kind == 'method_call':
        return ast.Expr(value=ast.Call(func=ast.Attribute(value=N(z), attr='update', ctx=ast.Load()), args=[], keywords=[])), [('taint', z)]
    if kind == 'read':
        return ast.Assign(targets=[N('unrelated_local', ast.Store())], value=N(z)), [('load', z)]
    if kind == 'comp_target':
        comp = ast.ListComp(elt=ast.Constant(value=0), generators=[ast.comprehension(target=N(z, ast.Store()), iter=ast.Constant(value=()), ifs=[], is_async=0)])
        return ast.Expr(value=comp), [('store', z)]
    if kind == 'unrelated':
        return ast.Assign(targets=[N('unrelated_local', ast.Store())], value=c1), []
    raise EngineLimit(kind)


def args_node(P, extra=()):
    return ast.arguments(posonlyargs=[], args=[ast.arg(arg=P.p0)] + [ast.arg(arg=a) for a in extra], vararg=ast.arg(arg=P.va), kwonlyargs=[], kw_defaults=[],
                         kwarg=ast.arg(arg=P.vk), defaults=[])


def build_program(P, context, killer, order, with_explicit=False):
    """returns (FunctionDef node, site dict). site: star/dstar identifiers, explicit args, nesting info, and the list of
    identifier occurrences that precede the star resolution of the site, in the order the analysis must honour"""
    x, y = P.ident('star'), P.ident('dstar')
    z = P.ident('z')
    pos = (P.ident('explicit'),) if with_explicit else ()
    kws = (('kw', P.ident('explicit_kw')),) if with_explicit else ()
    call = call_node(P, 'callee', x, y, pos, kws, two_stars=(context == 'two_stars'))
    site = dict(star=x, dstar=y, pos=pos, kws=kws, nested=None, two_stars=(context == 'two_stars'), before=[], after=[])
    inner_params = None
    if context in ('expr', 'two_stars'):
        stmt = ast.Expr(value=call)
    elif context == 'return':
        stmt = ast.Return(value=call)
    elif context == 'assign_value':
        stmt = ast.Assign(targets=[N('result_local', ast.Store())], value=call)
    elif context == 'if_body':
        stmt = ast.If(test=ast.Constant(value=True), body=[ast.Expr(value=call)], orelse=[])
    elif context == 'try_body':
        stmt = ast.Try(body=[ast.Expr(value=call)], handlers=[ast.ExceptHandler(type=None, name=None, body=[ast.Pass()])], orelse=[], finalbody=[])
    elif context == 'with_body':
        stmt = ast.With(items=[ast.withitem(context_expr=ast.Constant(value=None), optional_vars=None)], body=[ast.Expr(value=call)])
    elif context == 'listcomp':
        stmt = ast.Expr(value=ast.ListComp(elt=call, generators=[ast.comprehension(target=N('comp_local', ast.Store()), iter=ast.Constant(value=()), ifs=[], is_async=0)]))
    elif context == 'argument':
        stmt = ast.Expr(value=ast.Call(func=N('other_function'), args=[call], keywords=[]))
    elif context in ('lambda', 'lambda_argument'):
        lp = P.ident('lambda_param')
        inner_params = [lp]
        # (…_argument: the forwarding call is itself an argument of another call inside the nested scope)
        lbody = call if context == 'lambda' else ast.Call(func=N('other_function'), args=[call], keywords=[])
        lam = ast.Lambda(args=ast.arguments(posonlyargs=[], args=[ast.arg(arg=lp)], vararg=None, kwonlyargs=[], kw_defaults=[], kwarg=None, defaults=[]), body=lbody)
        stmt = ast.Assign(targets=[N('fn_local', ast.Store())], value=lam)
        site['nested'] = dict(params=inner_params, star_params=[])
    elif context in ('nested_def', 'nested_def_argument'):
        ip = P.ident('inner_param')
        inner_params = [ip]
        rv = call if context == 'nested_def' else ast.Call(func=N('other_function'), args=[], keywords=[ast.keyword(arg='key', value=call)])
        fd = ast.FunctionDef(name='inner', args=ast.arguments(posonlyargs=[], args=[ast.arg(arg=ip)], vararg=None, kwonlyargs=[], kw_defaults=[], kwarg=None, defaults=[]),
                             body=[ast.Return(value=rv)], decorator_list=[])
        stmt = fd
        site['nested'] = dict(params=inner_params, star_params=[])
    else:
        raise EngineLimit(context)
    body = []
    occ = []
    if killer == 'nested_def_param':
        # a nested function whose own parameter is spelled z, rebinding nothing outside: must NOT kill
        kd = ast.FunctionDef(name='helper', args=ast.arguments(posonlyargs=[], args=[ast.arg(arg=z)], vararg=None, kwonlyargs=[], kw_defaults=[], kwarg=None, defaults=[]),
                             body=[ast.Return(value=N(z))], decorator_list=[])
        kstmt, occ = kd, []
    elif killer == 'nonlocal_rebind':
        kd = ast.FunctionDef(name='helper', args=ast.arguments(posonlyargs=[], args=[], vararg=None, kwonlyargs=[], kw_defaults=[], kwarg=None, defaults=[]),
                             body=[ast.Nonlocal(names=[z]), ast.Assign(targets=[N(z, ast.Store())], value=ast.Constant(value=1))], decorator_list=[])
        kstmt, occ = kd, [('store', z)]
    else:
        kstmt, occ = killer_stmt(P, killer, z)
    if order == 'before':
        body = [kstmt, stmt]
        site['before'] = occ
    else:
        body = [stmt, kstmt]
        site['after'] = occ
    fn = ast.FunctionDef(name='f', args=args_node(P), body=body, decorator_list=[])
    return fn, site


def oracle(P, site):
    """(use_varargs, use_varkwargs) as z3 conditions: the property's second sentence + C06's 'for the call shape written'"""
    va, vk = P.va.t, P.vk.t

    def killed(name, roles):
        conds = []
        # occurrences before the site in the main scope; for a site in a nested scope the call is judged when the whole
        # body has been seen (any later rebinding may precede the moment the nested function runs)
        seq = list(site['before']) + (list(site['after']) if site['nested'] is not None else [])
        # the explicit arguments of the call itself are evaluated before the star arguments are expanded
        seq += [('load', a) for a in site['pos']] + [('load', v) for _, v in site['kws']]
        for role, ident in seq:
            if role in roles:
                conds.append(ident.t == name)
        return z3.Or(*conds) if conds else z3.BoolVal(False)
    shadow_va = z3.BoolVal(False)
    shadow_vk = z3.BoolVal(False)
    if site['nested'] is not None:
        for ip in site['nested']['params']:
            shadow_va = z3.Or(shadow_va, ip.t == va)
            shadow_vk = z3.Or(shadow_vk, ip.t == vk)
    # *args is an immutable tuple: only rebinding MUST kill it (merely reading it may or may not - the property does
    # not say, and the analysis is allowed to be conservative there); **kwargs is a mutable dict: any other use kills it
    pass_va = z3.And(site['star'].t == va, z3.Not(shadow_va), z3.BoolVal(not site['two_stars']))
    must_use_va = z3.And(pass_va, z3.Not(killed(va, ('store', 'taint', 'load'))))
    must_not_va = z3.Or(z3.Not(pass_va), killed(va, ('store', 'taint')))
    use_vk = z3.And(site['dstar'].t == vk, z3.Not(killed(vk, ('store', 'load', 'taint'))), z3.Not(shadow_vk))
    return (must_use_va, must_not_va), (use_vk, z3.Not(use_vk))


def make_visitor_runner(context, killer, order, explicit=False, want=None):
    I = Interp()
    ma = I.module('sigtools._autoforwards')
    env = {'interp': I, 'mode': 'visitor'}

    def run(ctx, r):
        env['r'] = r
        P = Prog()
        ctx.add(z3.Distinct(P.va.t, P.vk.t, P.p0.t))
        fn, site = build_program(P, context, killer, order, explicit)
        env['P'], env['site'], env['fn'] = P, site, fn
        try:
            v = I.instantiate(ma.ns['CallListerVisitor'], [fn], [])
            r.outcome, r.value = 'return', v
        except PyExc as e:
            r.outcome, r.exc = 'raise', e
    return run, env


def visitor_vcs(env, want):
    r, I = env['r'], env['interp']
    out = []

    def on(c):
        return want is None or any(p in want for p in c.props)
    if r.outcome == 'raise':
        if on(V_RAISE):
            out.append(VC(V_RAISE.full + ':' + r.exc.typname, [], z3.BoolVal(False), V_RAISE.props))
        return out
    P, site = env['P'], env['site']
    calls = list(r.value._d['calls'])
    # the recorded call to ``callee`` (decoys: other_function / helper calls)
    mine = [c for c in calls if isinstance(c.wrapped, Inst) and c.wrapped._cls.name == 'Name' and c.wrapped._d.get('name') == 'callee']
    if on(V_SHAPE):
        ok = len(mine) == 1
        if ok:
            c = mine[0]
            ok = len(c.args) == len(site['pos']) and [k for k, _ in c.kwargs.items_] == [k for k, _ in site['kws']]
        out.append(VC(V_SHAPE.full, [], z3.BoolVal(bool(ok)), V_SHAPE.props))
    if on(V_FLAGS) and len(mine) == 1:
        c = mine[0]
        (must_va, mustnot_va), (must_vk, mustnot_vk) = oracle(P, site)
        flags = [c.use_varargs, c.use_varkwargs, c.hide_args, c.hide_kwargs]
        if not all(isinstance(f, bool) for f in flags):
            raise EngineLimit('non-boolean flag recorded')
        out.append(VC(V_FLAGS.full + ':use_varargs', [], z3.And(z3.Implies(must_va, c.use_varargs), z3.Implies(mustnot_va, not c.use_varargs)), V_FLAGS.props))
        out.append(VC(V_FLAGS.full + ':use_varkwargs', [], z3.And(z3.Implies(must_vk, c.use_varkwargs), z3.Implies(mustnot_vk, not c.use_varkwargs)), V_FLAGS.props))
        out.append(VC(V_FLAGS.full + ':hide_is_the_complement', [], z3.BoolVal(c.hide_args == (not c.use_varargs) and c.hide_kwargs == (not c.use_varkwargs)), V_FLAGS.props))
    return out


def _unparse_with(model, fn, P):
    """concrete source of the template under the model"""
    import copy
    from vf.concrete import Concretizer
    conc = Concretizer(model)
    fixed = {'va': 'args', 'vk': 'kwargs'}
    names = {}

    def nm(s):
        if isinstance(s, SymName):
            k = str(conc.ev(s.t))
            if k not in names:
                base = {str(conc.ev(P.va.t)): 'args', str(conc.ev(P.vk.t)): 'kwargs', str(conc.ev(P.p0.t)): 'first'}.get(k)
                names[k] = base or 'name%d' % len(names)
            return names[k]
        return s
    t = copy.deepcopy(fn) if False else fn

    class Fix(ast.NodeTransformer):
        def visit_Name(self, node):
            return ast.copy_location(ast.Name(id=nm(node.id), ctx=node.ctx), node)

        def visit_arg(self, node):
            return ast.arg(arg=nm(node.arg))

        def visit_Nonlocal(self, node):
            return ast.Nonlocal(names=[nm(x) for x in node.names])
    import pickle
    tree = Fix().visit(_clone(fn))
    mod = ast.Module(body=[tree], type_ignores=[])
    ast.fix_missing_locations(mod)
    return ast.unparse(mod)


def _clone(node):
    if isinstance(node, ast.AST):
        return type(node)(**{f: _clone(getattr(node, f)) for f in node._fields if hasattr(node, f)})
    if isinstance(node, list):
        return [_clone(x) for x in node]
    return node


def visitor_replay(env, vc, model):
    """run the REAL visitor natively on the concretised program and compare the recorded flags with the oracle"""
    from vf.concrete import Concretizer, real_sigtools
    real_sigtools()
    from sigtools import _autoforwards
    P, site = env['P'], env['site']
    try:
        src = _unparse_with(model, env['fn'], P)
    except Exception as e:
        return dict(status='no-replay', op='discovery:visitor', error='cannot print the template: %r' % (e,))
    conc = Concretizer(model)
    (mu_va, mn_va), (mu_vk, mn_vk) = [[z3.is_true(model.eval(t, model_completion=True)) for t in pair] for pair in oracle(P, site)]
    try:
        tree = ast.parse(src).body[0]
        v = _autoforwards.CallListerVisitor(tree)
    except SyntaxError as e:
        return dict(status='no-replay', op='discovery:visitor', program=src, error='template not realisable: %r' % (e,))
    except Exception as e:
        return dict(status='reproduced', op='discovery:visitor', program=src, violated=[['raises:nothing', repr(e)]])
    mine = [c for c in v.calls if isinstance(c.wrapped, _autoforwards.Name) and c.wrapped.name == 'callee']
    bad = []
    if len(mine) != 1:
        bad.append(('post:call_shape', '%d records for the call' % len(mine)))
    else:
        c = mine[0]
        if (mu_va and not c.use_varargs) or (mn_va and c.use_varargs):
            bad.append(('post:star_flags', 'use_varargs recorded %r, expected %r' % (c.use_varargs, mu_va)))
        if (mu_vk and not c.use_varkwargs) or (mn_vk and c.use_varkwargs):
            bad.append(('post:star_flags', 'use_varkwargs recorded %r, expected %r' % (c.use_varkwargs, mu_vk)))
    key = ':'.join(vc.name.split('/', 1)[1].split(':')[:2])
    hit = [b for b in bad if b[0] == key]
    return dict(status='reproduced' if hit else ('other-violation' if bad else 'not-reproduced'), op='discovery:visitor', program=src,
                violated=[list(b) for b in (hit or bad)])


# =========================================================================== binder table
BINDERS = [
    # (row, statement template rebinding ``kwargs`` through that construct, python version guard)
    ('Name(Store) assignment', 'kwargs = {}'),
    ('AugAssign', 'kwargs |= {}'),
    ('Delete', 'del kwargs'),
    ('For target', 'for kwargs in (): pass'),
    ('With as', 'with ctx() as kwargs: pass'),
    ('NamedExpr', '(kwargs := {})'),
    ('comprehension target', '[0 for kwargs in ()]'),
    ('ExceptHandler.name', 'try:\n        pass\n    except Exception as kwargs:\n        pass'),
    ('alias (import as)', 'import os as kwargs'),
    ('alias (from import)', 'from os import path as kwargs'),
    ('FunctionDef.name', 'def kwargs(): pass'),
    ('ClassDef.name', 'class kwargs: pass'),
    ('MatchAs.name', 'match 0:\n        case kwargs:\n            pass'),
    ('MatchStar.name', 'match 0:\n        case [*kwargs]:\n            pass'),
    ('MatchMapping.rest', 'match 0:\n        case {**kwargs}:\n            pass'),
    ('AsyncFunctionDef parameter scope', None),
    ('arguments.posonlyargs of a nested function', None),
]


def make_binder_runner(row, want=None):
    I = Interp()
    env = {'interp': I, 'mode': 'binders', 'row': row}

    def run(ctx, r):
        env['r'] = r
        env['result'] = binder_case(row)
        r.outcome, r.value = 'return', None
    return run, env


def binder_case(row):
    """natively: def f(*args, **kwargs): <binder rebinding kwargs>; return callee(*args, **kwargs)  must NOT advertise
    callee's keyword parameters (they would be passed the rebound object)"""
    from vf.concrete import real_sigtools
    real_sigtools()
    from sigtools import _autoforwards
    name, stmt = BINDERS[row]
    if stmt is not None:
        src = 'def f(*args, **kwargs):\n    %s\n    return callee(*args, **kwargs)\n' % stmt
        want_kw, want_va = False, True
    elif name.startswith('AsyncFunctionDef'):
        src = 'def f(*args, **kwargs):\n    async def inner(*args, **kwargs):\n        return callee(*args, **kwargs)\n    return inner\n'
        want_kw, want_va = False, False
    else:
        src = 'def f(*args, **kwargs):\n    def inner(kwargs, /):\n        return callee(*args, **kwargs)\n    return inner\n'
        want_kw, want_va = False, True
    try:
        tree = ast.parse(src).body[0]
    except SyntaxError as e:
        return dict(row=name, program=src, ok=True, note='construct not in this grammar: %s' % e)
    try:
        v = _autoforwards.CallListerVisitor(tree)
    except Exception as e:
        return dict(row=name, program=src, ok=False, note='visitor raised %r' % (e,))
    mine = [c for c in v.calls if isinstance(c.wrapped, _autoforwards.Name) and c.wrapped.name == 'callee']
    ok = len(mine) == 1 and mine[0].use_varkwargs == want_kw and mine[0].use_varargs == want_va
    return dict(row=name, program=src, ok=ok,
                note='recorded use_varargs=%r use_varkwargs=%r, expected %r %r' % (mine[0].use_varargs if mine else None, mine[0].use_varkwargs if mine else None, want_va, want_kw))


def binder_vcs(env, want):
    out = []
    if want is not None and not any(p in want for p in T_BIND.props):
        return out
    res = env['result']
    env['detail'] = res
    out.append(VC(T_BIND.full + ':' + res['row'], [], z3.BoolVal(bool(res['ok'])), T_BIND.props))
    return out


def binder_replay(env, vc, model):
    res = env['detail']
    return dict(status='reproduced' if not res['ok'] else 'not-reproduced', op='discovery:binders', row=res['row'], program=res['program'],
                violated=[['table:binder_handled', res['note']]])


# =========================================================================== dispatch
def make_runner(mode, want=None, **kw):
    if mode == 'resolve':
        return make_resolve_runner(want=want, **kw)
    if mode == 'visitor':
        return make_visitor_runner(want=want, **kw)
    if mode == 'binders':
        return make_binder_runner(want=want, **kw)
    raise EngineLimit('mode %s' % mode)


def vcs(env, want):
    return {'resolve': resolve_vcs, 'visitor': visitor_vcs, 'binders': binder_vcs}[env['mode']](env, want)


def replay(env, vc, model):
    return {'resolve': resolve_replay, 'visitor': visitor_replay, 'binders': binder_replay}[env['mode']](env, vc, model)


def crosscheck(env, r):
    """differential check of the generator against CPython for the visitor: the template is printed under one model
    of the path condition, the REAL CallListerVisitor runs on the parsed text, and what it records for the call must be
    what the interpreted visitor recorded on this path"""
    if env['mode'] != 'visitor':
        return None
    s = r.ctx.solver
    if s.check() != z3.sat:
        return 'path condition not satisfiable at path end'
    model = s.model()
    from vf.concrete import real_sigtools
    real_sigtools()
    from sigtools import _autoforwards
    try:
        src = _unparse_with(model, env['fn'], env['P'])
        tree = ast.parse(src).body[0]
    except SyntaxError:
        return None          # e.g. ``nonlocal`` of a name that is no enclosing local: not a Python program
    try:
        v = _autoforwards.CallListerVisitor(tree)
        nat = ('return', [(c.use_varargs, c.use_varkwargs, c.hide_args, c.hide_kwargs, len(c.args), sorted(c.kwargs)) for c in v.calls
                          if isinstance(c.wrapped, _autoforwards.Name) and c.wrapped.name == 'callee'])
    except Exception as e:
        nat = ('raise', type(e).__name__)
    if r.outcome == 'raise':
        mine = ('raise', r.exc.typname)
    else:
        mine = ('return', [(c.use_varargs, c.use_varkwargs, c.hide_args, c.hide_kwargs, len(c.args), sorted(k for k, _ in c.kwargs.items_)) for c in r.value._d['calls']
                           if isinstance(c.wrapped, Inst) and c.wrapped._cls.name == 'Name' and c.wrapped._d.get('name') == 'callee'])
    if mine != nat:
        return 'visitor on %r: symbolic %r, native %r' % (src, mine, nat)
    return None
