"""Tier R: the contracts evaluated CONCRETELY on the real functions under CPython.

Used (a) to replay solver counterexamples natively before anything is reported, (b) as the bounded stand-in
for code outside the generator's reach, (c) to validate the spec oracle against really calling functions.
Every checker returns a list of (clause_name, detail) for the clauses violated on the given concrete case.
"""
import inspect
import itertools
import warnings

from . import spec
from .spec import PyOps, PO, POK, VP, KWO, VK
from .concrete import cview, real_accepts, spec_accepts, ccall, real_sigtools, sig_str


def all_names(sigs):
    out = []
    for s in sigs:
        for n in s.parameters:
            if n not in out:
                out.append(n)
    return out


def call_shapes(names, maxn, foreign=('zz', 'yy')):
    pool = list(names) + [f for f in foreign if f not in names]
    for n in range(maxn + 1):
        for k in range(len(pool) + 1):
            for ks in itertools.combinations(pool, k):
                yield n, ks


def npos(sig):
    return len([p for p in sig.parameters.values() if p.kind in (p.POSITIONAL_ONLY, p.POSITIONAL_OR_KEYWORD)])


def params_data(sig):
    return [(p.name, int(p.kind), p.default, p.annotation) for p in sig.parameters.values()]


def is_pure(n, ks):
    return n == 0 or not ks


def check_sources_wf(sig, declares):
    """C08 V1 on a concrete result. ``declares(f, name)`` -> bool"""
    bad = []
    src = getattr(sig, 'sources', None)
    if not isinstance(src, dict) or '+depths' not in src:
        return [('sources_wf', 'no sources / no +depths')]
    names = list(sig.parameters)
    keys = [k for k in src if k != '+depths']
    for n in names:
        if n not in src:
            bad.append(('sources_wf:entry_for', n))
    for k in keys:
        if k not in names:
            bad.append(('sources_wf:key_is_parameter', k))
        lst = src[k]
        if not lst:
            bad.append(('sources_wf:nonempty', k))
        if len(set(map(id, lst))) != len(lst):
            bad.append(('sources_wf:duplicate_free', k))
        for f in lst:
            if f not in src['+depths']:
                bad.append(('sources_wf:has_depth', k))
            elif declares is not None and not declares(f, k):
                bad.append(('sources_wf:declared', '%s by %r' % (k, f)))
    return bad


def fn_declares(f, name):
    """does callable f declare a parameter called name (by its own def / inspect signature)"""
    try:
        while isinstance(f, __import__('functools').partial):
            return True     # a partial object 'declares' the keywords it binds into **kwargs
        return name in inspect.signature(f, follow_wrapped=False).parameters
    except (TypeError, ValueError):
        return True


def check_merge(sigs, outcome, maxn=None, calls=None):
    """all C01/C09/C15/C08/C10 clauses of merge on one concrete case. outcome: ('return', sig) | ('raise', exc)"""
    real_sigtools()
    from sigtools import _signatures
    bad = []
    views = [cview(s) for s in sigs]
    rc = spec.role_consistent(PyOps, views)
    aligned = all(spec.name_aligned(PyOps, a, b) for a, b in itertools.combinations(views, 2)) and spec.roles_kept(PyOps, views)
    names = all_names(sigs)
    if maxn is None:
        maxn = max(npos(s) for s in sigs) + 2
    shapes_ = list(calls) if calls is not None else list(call_shapes(names, maxn))
    if outcome[0] == 'raise':
        e = outcome[1]
        if not isinstance(e, ValueError):
            bad.append(('raises:only_ValueError:type', repr(e)))
        elif not isinstance(e, _signatures.IncompatibleSignatures) and rc:
            bad.append(('raises:only_ValueError:incompatible_on_role_consistent', repr(e)))
        if isinstance(e, _signatures.IncompatibleSignatures) and aligned:
            for n, ks in shapes_:
                if all(real_accepts(v, n, ks) for v in views):
                    bad.append(('raises:only_if_no_common_call', 'call %r accepted by all inputs' % ((n, ks),)))
                    break
        return bad
    res = outcome[1]
    rv = cview(res)
    for n, ks in shapes_:
        a = real_accepts(rv, n, ks)
        ins = all(real_accepts(v, n, ks) for v in views)
        nonc = spec.noncolliding(PyOps, rv, views, ccall(n, ks))
        if a and not ins:
            if is_pure(n, ks):
                bad.append(('post:sound_pure', 'call %r' % ((n, ks),)))
            elif rc and nonc:
                bad.append(('post:sound_mixed', 'call %r' % ((n, ks),)))
        if ins and not a and aligned and nonc:
            bad.append(('post:exact', 'call %r' % ((n, ks),)))
    if not isinstance(res, _signatures.UpgradedSignature) or not all(isinstance(p, _signatures.UpgradedParameter) for p in res.parameters.values()) \
            or '+depths' not in getattr(res, 'sources', {}):
        bad.append(('post:wellformed:upgraded_with_depths', 'not upgraded, or no depth map'))
    funcs = []
    for s in sigs:
        for f in s.sources.get('+depths', {}):
            funcs.append(f)
    bad += [('post:' + c, d) for c, d in check_sources_wf(res, fn_declares)]
    if rc and aligned:
        for p in res.parameters.values():
            if p.kind in (p.VAR_POSITIONAL, p.VAR_KEYWORD):
                continue
            expect = []
            for s in sigs:
                for f in s.sources.get(p.name, []):
                    if f not in expect:
                        expect.append(f)
            got = res.sources.get(p.name, [])
            if set(map(id, got)) != set(map(id, expect)):
                bad.append(('post:sources_exact', '%s: %r vs %r' % (p.name, got, expect)))
    # depths: pointwise minimum
    dep = res.sources.get('+depths', {})
    for s in sigs:
        for f, d in s.sources.get('+depths', {}).items():
            if f not in dep:
                bad.append(('post:depths_min:has', repr(f)))
            else:
                m = min(s2.sources['+depths'][f] for s2 in sigs if f in s2.sources.get('+depths', {}))
                if dep[f] != m:
                    bad.append(('post:depths_min:min', '%r: %r != %r' % (f, dep[f], m)))
    return bad


def ua_bad(p, contribs):
    """C11 on a concrete result parameter: its upgraded annotation's source_value() is empty iff it is not annotated,
    and otherwise is what the wrapper of a contributing input parameter with the same annotation yields (the object
    the annotation denotes in the globals of the function that defined it)"""
    try:
        sv = p.upgraded_annotation.source_value()
    except Exception as e:
        return 'source_value() raised %r' % (e,)
    if p.annotation is p.empty:
        return None if sv is p.empty else 'not annotated but source_value() = %r' % (sv,)
    want = []
    for c in contribs:
        if c is not None and c.annotation is not c.empty and c.annotation == p.annotation:
            try:
                want.append(c.upgraded_annotation.source_value())
            except Exception as e:
                want.append('<raised %r>' % (e,))
    if not any(sv == w for w in want):
        return 'source_value() = %r, contributors denote %r' % (sv, want)
    return None


def ua_return_bad(res, first):
    a, b = res.upgraded_return_annotation.source_value(), first.upgraded_return_annotation.source_value()
    if res.return_annotation != first.return_annotation or a != b:
        return 'return annotation %r/%r vs %r/%r' % (res.return_annotation, a, first.return_annotation, b)
    return None


def check_merge_meta(sigs, res):
    """C10 on a concrete merge result: contributors of a result parameter = the input parameters of the same
    name (valid reading when every shared name is role-consistent)"""
    bad = []
    for p in res.parameters.values():
        contrib = [s.parameters[p.name] for s in sigs if p.name in s.parameters]
        if not contrib:
            bad.append(('post:meta_optional_only_if_all:stands_for_inputs', p.name))
            continue
        if p.default is not p.empty:
            if not all(c.default is not c.empty for c in contrib):
                bad.append(('post:meta_optional_only_if_all', p.name))
            else:
                ds = [c.default for c in contrib]
                exp = ds[0] if all(d == ds[0] for d in ds) else None
                if p.default != exp:
                    bad.append(('post:meta_default_common_or_None', '%s: %r expected %r' % (p.name, p.default, exp)))
        anns = [c.annotation for c in contrib if c.annotation is not c.empty]
        exp = anns[0] if anns and all(a == anns[0] for a in anns) else p.empty
        if p.annotation != exp:
            bad.append(('post:meta_annotation_agreed', '%s: %r expected %r' % (p.name, p.annotation, exp)))
        for c in contrib:
            if not (p.kind == c.kind or (c.kind == c.POSITIONAL_OR_KEYWORD and p.kind in (p.POSITIONAL_ONLY, p.KEYWORD_ONLY))):
                bad.append(('post:meta_kind_only_restricts', p.name))
        u = ua_bad(p, contrib)
        if u:
            bad.append(('post:ua_follows', '%s: %s' % (p.name, u)))
    u = ua_return_bad(res, sigs[0])
    if u:
        bad.append(('post:ua_follows:return', u))
    return bad


def run_real(fn, *a, **k):
    with warnings.catch_warnings():
        warnings.simplefilter('ignore')
        try:
            return ('return', fn(*a, **k))
        except Exception as e:
            return ('raise', e)


def _slots_state(obj):
    """every slot / instance attribute of an object: which are set, and (for anything that is not one of the known
    containers snapshotted separately) a description of the value - so that state cached on an input shows up"""
    out = []
    names = []
    for klass in type(obj).__mro__:
        names += list(getattr(klass, '__slots__', ()))
    names += list(getattr(obj, '__dict__', {}))
    for n in sorted(set(names)):
        if n in ('_parameters', 'sources', 'source_depths', '_hash_basis_cache'):
            continue
        try:
            v = getattr(obj, n)
        except AttributeError:
            out.append((n, '<unset>'))
            continue
        out.append((n, v if isinstance(v, (int, str, float, bool, type(None))) else ('%s@%x' % (type(v).__name__, id(v)), repr(v)[:200])))
    return out


def snapshot_sig(sig):
    """deep value snapshot for frame checks"""
    return (params_data(sig), [(k, list(map(id, v)) if k != '+depths' else sorted((id(f), d) for f, d in v.items()))
                               for k, v in sig.sources.items()], id(sig.sources),
            [(id(p), id(p.sources), list(map(id, p.sources)), _slots_state(p)) for p in sig.parameters.values()], _slots_state(sig))


# --------------------------------------------------------------------------- mask
def _sig_equal_data(a, b):
    return params_data(a) == params_data(b) and a.return_annotation == b.return_annotation


def _src_equal(a, b):
    ka = {k: list(map(id, v)) for k, v in a.sources.items() if k != '+depths'}
    kb = {k: list(map(id, v)) for k, v in b.sources.items() if k != '+depths'}
    da = {id(f): d for f, d in a.sources.get('+depths', {}).items()}
    db = {id(f): d for f, d in b.sources.get('+depths', {}).items()}
    return ka == kb and da == db


def check_meta_subset(sig, res, allow_partial_defaults=None):
    """C10/C11 on a mask-like result: every parameter is sig's parameter of that name, data unchanged,
    kind equal or pok -> kwo / po"""
    bad = []
    order = []
    names = list(sig.parameters)
    for p in res.parameters.values():
        o = sig.parameters.get(p.name)
        if o is None:
            if allow_partial_defaults is not None and p.name in allow_partial_defaults:
                continue
            bad.append(('post:hide_only_removes:every_parameter_from_sig', p.name))
            continue
        if not (p.kind == o.kind or (o.kind == o.POSITIONAL_OR_KEYWORD and p.kind == p.KEYWORD_ONLY)):
            bad.append(('post:meta_unchanged_but_kind', '%s kind %s -> %s' % (p.name, o.kind, p.kind)))
        exp_default = o.default
        if allow_partial_defaults is not None and p.name in allow_partial_defaults:
            exp_default = allow_partial_defaults[p.name]
        if p.default != exp_default or p.annotation != o.annotation:
            bad.append(('post:meta_unchanged_but_kind', '%s default/annotation changed' % p.name))
        if ua_bad(p, [o]):
            bad.append(('post:ua_follows', '%s: %s' % (p.name, ua_bad(p, [o]))))
        if p.kind in (p.POSITIONAL_ONLY, p.POSITIONAL_OR_KEYWORD):
            order.append(names.index(p.name))
    if order != sorted(order):
        bad.append(('post:meta_unchanged_but_kind:order', repr(order)))
    if ua_return_bad(res, sig):
        bad.append(('post:ua_follows:return', ua_return_bad(res, sig)))
    return bad


def check_mask(sig, n, names, flags, outcome, maxn=None):
    real_sigtools()
    from sigtools import _signatures
    bad = []
    v = cview(sig)
    nohide = not any(flags.values())
    distinct = len(set(names)) == len(names)
    po = {p.name for p in sig.parameters.values() if p.kind == p.POSITIONAL_ONLY}
    applicable = distinct and not (set(names) & po)
    pool = list(sig.parameters) + [x for x in names if x not in sig.parameters]
    if maxn is None:
        maxn = npos(sig) + 2
    shapes_ = [(m, ks) for m, ks in call_shapes(pool, maxn) if not set(ks) & set(names)]
    if outcome[0] == 'raise':
        e = outcome[1]
        if not isinstance(e, ValueError):
            bad.append(('raises:only_ValueError:type', repr(e)))
        elif nohide and applicable:
            for m, ks in shapes_:
                if real_accepts(v, n + m, tuple(ks) + tuple(names)):
                    bad.append(('raises:only_if_impossible', 'sig accepts residual of call %r' % ((m, ks),)))
                    break
        return bad
    res = outcome[1]
    rv = cview(res)
    if not isinstance(res, _signatures.UpgradedSignature) or not all(isinstance(p, _signatures.UpgradedParameter) for p in res.parameters.values()) \
            or '+depths' not in getattr(res, 'sources', {}):
        bad.append(('post:wellformed:upgraded_with_depths', 'not upgraded'))
    if nohide and applicable:
        for m, ks in shapes_:
            if not spec.noncolliding(PyOps, rv, [v], ccall(m, ks)):
                continue
            a = real_accepts(rv, m, ks)
            e = real_accepts(v, n + m, tuple(ks) + tuple(names))
            if a != e:
                bad.append(('post:exact', 'call %r: result %s, sig with residual %s' % ((m, ks), a, e)))
                break
    for p in res.parameters.values():
        if flags.get('hide_args') and p.kind in (p.POSITIONAL_ONLY, p.POSITIONAL_OR_KEYWORD, p.VAR_POSITIONAL):
            bad.append(('post:hide_only_removes', p.name))
        if flags.get('hide_kwargs') and p.kind in (p.POSITIONAL_OR_KEYWORD, p.KEYWORD_ONLY, p.VAR_KEYWORD):
            bad.append(('post:hide_only_removes', p.name))
        if flags.get('hide_varargs') and p.kind == p.VAR_POSITIONAL:
            bad.append(('post:hide_only_removes', p.name))
        if flags.get('hide_varkwargs') and p.kind == p.VAR_KEYWORD:
            bad.append(('post:hide_only_removes', p.name))
    bad += check_meta_subset(sig, res)
    if not nohide and applicable:
        L = npos(sig)
        sn = list(sig.parameters)
        for m, ks in shapes_:
            if not spec.noncolliding(PyOps, rv, [v], ccall(m, ks)) or not real_accepts(rv, m, ks):
                continue
            ha, hk, hva, hvk = (flags.get(k) for k in ('hide_args', 'hide_kwargs', 'hide_varargs', 'hide_varkwargs'))
            posr = range(0, L + 3) if ha else ([n + m + e for e in range(0, 3)] if hva else [n + m])
            base_k = tuple(ks) if hk else tuple(ks) + tuple(names)
            extra_pool = [x for x in sn + ['zz', 'yy'] if x not in base_k] if (hk or hvk) else []
            ok = False
            for tp in posr:
                for ek in range(len(extra_pool) + 1):
                    for eks in itertools.combinations(extra_pool, ek):
                        if real_accepts(v, tp, base_k + tuple(eks)):
                            ok = True
                            break
                    if ok:
                        break
                if ok:
                    break
            if not ok:
                bad.append(('post:hide_sound', 'call %r accepted by the result but by sig for no choice of hidden arguments' % ((m, ks),)))
                break
    for c, d in check_sources_wf(res, fn_declares):
        bad.append(('post:' + c, d))
    for k, lst in res.sources.items():
        if k != '+depths' and any(f not in sig.sources.get(k, []) for f in lst):
            bad.append(('post:sources_wf:from_input', k))
    if res.sources.get('+depths') != sig.sources.get('+depths'):
        bad.append(('post:depths_unchanged', repr(res.sources.get('+depths'))))
    if res.sources is sig.sources or any(v2 is v1 for v1 in res.sources.values() for v2 in sig.sources.values()):
        bad.append(('frame:fresh_sources', 'shared provenance container'))
    return bad


def check_mask_laws(sig, n, names, mode, m=0):
    real_sigtools()
    from sigtools import _signatures
    bad = []

    def same(a, b, law):
        if a[0] != b[0]:
            bad.append((law + ':same_outcome', '%r vs %r' % (a, b)))
        elif a[0] == 'return':
            if params_data(a[1]) != params_data(b[1]):
                bad.append((law + ':parameters', '%s vs %s' % (a[1], b[1])))
            if not _src_equal(a[1], b[1]):
                bad.append((law + ':provenance', '%r vs %r' % (a[1].sources, b[1].sources)))
            if a[1].return_annotation != b[1].return_annotation:
                bad.append((law + ':return_annotation', ''))
    if mode == 'order':
        base = run_real(_signatures.mask, sig, n, *names)
        for perm in itertools.permutations(names):
            same(base, run_real(_signatures.mask, sig, n, *perm), 'law:order_independent')
    elif mode == 'zero':
        same(run_real(_signatures.mask, sig, 0), ('return', sig), 'law:mask_zero')
    elif mode == 'maskmask':
        a1 = run_real(_signatures.mask, sig, n)
        a = run_real(_signatures.mask, a1[1], m) if a1[0] == 'return' else a1
        same(a, run_real(_signatures.mask, sig, n + m), 'law:mask_mask')
    return bad


# --------------------------------------------------------------------------- embed
def kw_passable_names(sig):
    return [p.name for p in sig.parameters.values() if p.kind in (p.POSITIONAL_OR_KEYWORD, p.KEYWORD_ONLY)]


def embed_expected(ov, iv, outer, uv, uk, n, ks):
    if not real_accepts(ov, n, ks):
        return False
    sp = max(0, n - npos(outer))
    kp = kw_passable_names(outer)
    sk = tuple(k for k in ks if k not in kp)
    return real_accepts(iv, sp if uv else 0, sk if uk else ())


def outer_defaults_followed(outer, res):
    od = {p.name for p in outer.parameters.values() if p.kind in (p.POSITIONAL_ONLY, p.POSITIONAL_OR_KEYWORD) and p.default is not p.empty}
    seen = False
    for p in res.parameters.values():
        if p.kind not in (p.POSITIONAL_ONLY, p.POSITIONAL_OR_KEYWORD):
            continue
        if p.name in outer.parameters:
            seen = seen or p.name in od
        elif seen:
            return True
    return False


def check_embed(outer, inner, uv, uk, outcome, maxn=None):
    real_sigtools()
    from sigtools import _signatures
    bad = []
    ov, iv = cview(outer), cview(inner)
    names = all_names([outer, inner])
    if maxn is None:
        maxn = npos(outer) + npos(inner) + 2
    shapes_ = list(call_shapes(names, maxn))
    named = lambda s: {p.name for p in s.parameters.values() if p.kind not in (p.VAR_POSITIONAL, p.VAR_KEYWORD)}
    shared = bool(named(outer) & named(inner))
    rc = spec.role_consistent(PyOps, [ov, iv])
    if outcome[0] == 'raise':
        e = outcome[1]
        if not isinstance(e, ValueError):
            bad.append(('raises:only_ValueError:type', repr(e)))
        elif not isinstance(e, _signatures.IncompatibleSignatures) and rc:
            bad.append(('raises:only_ValueError:incompatible_on_role_consistent', repr(e)))
        if isinstance(e, _signatures.IncompatibleSignatures) and not shared:
            for n, ks in shapes_:
                if embed_expected(ov, iv, outer, uv, uk, n, ks):
                    bad.append(('raises:only_if_shared_name_or_no_call', 'call %r would succeed' % ((n, ks),)))
                    break
        return bad
    res = outcome[1]
    rv = cview(res)
    odf = outer_defaults_followed(outer, res)
    for n, ks in shapes_:
        if not spec.noncolliding(PyOps, rv, [ov, iv], ccall(n, ks)):
            continue
        a = real_accepts(rv, n, ks)
        e = embed_expected(ov, iv, outer, uv, uk, n, ks)
        if a and not e:
            bad.append(('post:sound', 'call %r' % ((n, ks),)))
            break
        if e and not a and not odf:
            bad.append(('post:exact', 'call %r' % ((n, ks),)))
            break
    if not named(outer) and uv and uk and any(p.kind == p.VAR_POSITIONAL for p in outer.parameters.values()) \
            and any(p.kind == p.VAR_KEYWORD for p in outer.parameters.values()):
        if params_data(res) != params_data(inner) and all(p.annotation is p.empty for p in outer.parameters.values()):
            bad.append(('post:bare_outer', '%s vs %s' % (res, inner)))
    if not isinstance(res, _signatures.UpgradedSignature) or not all(isinstance(p, _signatures.UpgradedParameter) for p in res.parameters.values()) \
            or '+depths' not in getattr(res, 'sources', {}):
        bad.append(('post:wellformed:upgraded_with_depths', 'not upgraded'))
    # metadata (valid when no non-star name is shared)
    if not shared:
        seq = {'pos': [], 'kwo': []}
        for p in res.parameters.values():
            side = 'outer' if p.name in outer.parameters and outer.parameters[p.name].kind == p.kind or p.name in named(outer) else 'inner'
            o = (outer if side == 'outer' else inner).parameters.get(p.name)
            if o is None:
                o = outer.parameters.get(p.name) or inner.parameters.get(p.name)
                if o is None:
                    bad.append(('post:meta_outer_before_inner:every_parameter_from_an_input', p.name))
                    continue
            if p.kind in (p.POSITIONAL_ONLY, p.POSITIONAL_OR_KEYWORD):
                seq['pos'].append(side)
            elif p.kind == p.KEYWORD_ONLY:
                seq['kwo'].append(side)
            if not (p.kind == o.kind or (o.kind == o.POSITIONAL_OR_KEYWORD and p.kind in (p.POSITIONAL_ONLY, p.KEYWORD_ONLY))):
                bad.append(('post:meta_kind_only_restricts', p.name))
            if p.annotation != o.annotation and p.kind not in (p.VAR_POSITIONAL, p.VAR_KEYWORD):
                bad.append(('post:meta_defaults', '%s annotation' % p.name))
            if p.default is not p.empty and (o.default is o.empty or p.default != o.default):
                bad.append(('post:meta_defaults', '%s default' % p.name))
            if p.default is p.empty and o.default is not o.empty:
                if side == 'inner' or p.kind not in (p.POSITIONAL_ONLY, p.POSITIONAL_OR_KEYWORD):
                    bad.append(('post:meta_defaults', '%s default dropped' % p.name))
                else:
                    after = list(res.parameters.values())
                    after = after[after.index(p) + 1:]
                    if not any(q.kind in (q.POSITIONAL_ONLY, q.POSITIONAL_OR_KEYWORD) and q.default is q.empty and q.name not in named(outer) for q in after):
                        bad.append(('post:meta_defaults', '%s outer default dropped without a required inner positional after it' % p.name))
            if ua_bad(p, [outer.parameters.get(p.name), inner.parameters.get(p.name)]):
                bad.append(('post:ua_follows', '%s: %s' % (p.name, ua_bad(p, [outer.parameters.get(p.name), inner.parameters.get(p.name)]))))
        for k, lab in seq.items():
            if 'inner' in lab and 'outer' in lab[lab.index('inner'):]:
                bad.append(('post:meta_outer_before_inner', '%s: %r' % (k, lab)))
    if ua_return_bad(res, outer):
        bad.append(('post:ua_follows:return', ua_return_bad(res, outer)))
    for c, d in check_sources_wf(res, fn_declares):
        bad.append(('post:' + c, d))
    if not shared:
        for p in res.parameters.values():
            if p.kind in (p.VAR_POSITIONAL, p.VAR_KEYWORD):
                continue
            src_sig = outer if p.name in outer.parameters else inner
            exp = src_sig.sources.get(p.name, [])
            got = res.sources.get(p.name, [])
            if list(map(id, got)) != list(map(id, exp)):
                bad.append(('post:sources_exact', '%s: %r vs %r' % (p.name, got, exp)))
    dep = res.sources.get('+depths', {})
    exp = dict(outer.sources.get('+depths', {}))
    for f, d in inner.sources.get('+depths', {}).items():
        exp[f] = min(exp.get(f, d + 1), d + 1)
    if dep != exp:
        bad.append(('post:depths', '%r vs %r' % (dep, exp)))
    if any(res.sources is s.sources for s in (outer, inner)) or any(v2 is v1 for v1 in res.sources.values() for s in (outer, inner) for v2 in s.sources.values()):
        bad.append(('frame:fresh_sources', 'shared provenance container'))
    return bad


def check_embed_fold(sigs, fl):
    real_sigtools()
    from sigtools import _signatures
    if not spec.roles_kept(PyOps, [cview(s) for s in sigs]):
        return []
    a = run_real(_signatures.embed, *sigs, **fl)
    b1 = run_real(_signatures.embed, sigs[0], sigs[1], **fl)
    b = run_real(_signatures.embed, b1[1], sigs[2], **fl) if b1[0] == 'return' else b1
    if a[0] != b[0]:
        return [('law:fold:same_outcome', '%r vs %r' % (a, b))]
    if a[0] == 'return' and params_data(a[1]) != params_data(b[1]):
        return [('law:fold:parameters', '%s vs %s' % (a[1], b[1]))]
    return []


# --------------------------------------------------------------------------- forwards
def check_forwards(outer, inner, n, names, fl, outcome, maxn=None):
    real_sigtools()
    from sigtools import _signatures
    import inspect as _inspect
    bad = []
    # law:compose against the public algebra
    def composed():
        inner2 = inner
        if fl.get('partial'):
            ps = [p if p.kind in (p.VAR_POSITIONAL, p.VAR_KEYWORD) else p.replace(default=None) for p in inner.parameters.values()]
            inner2 = inner.replace(parameters=ps)
        masked = _signatures.mask(inner2, n, *names, hide_args=fl.get('hide_args', False), hide_kwargs=fl.get('hide_kwargs', False))
        return _signatures.embed(outer, masked, use_varargs=fl.get('use_varargs', True), use_varkwargs=fl.get('use_varkwargs', True))
    exp = run_real(composed)
    if exp[0] != outcome[0]:
        bad.append(('law:compose:same_outcome', '%r vs %r' % (outcome, exp)))
    elif exp[0] == 'return':
        if params_data(exp[1]) != params_data(outcome[1]):
            bad.append(('law:compose:parameters', '%s vs %s' % (outcome[1], exp[1])))
        if not _src_equal(exp[1], outcome[1]):
            bad.append(('law:compose:provenance', '%r vs %r' % (outcome[1].sources, exp[1].sources)))
        if exp[1].return_annotation != outcome[1].return_annotation:
            bad.append(('law:compose:return_annotation', ''))
    elif type(exp[1]) is not type(outcome[1]):
        bad.append(('law:compose:same_outcome', '%r vs %r' % (outcome, exp)))
    if outcome[0] == 'raise':
        if not isinstance(outcome[1], ValueError):
            bad.append(('raises:only_ValueError:type', repr(outcome[1])))
        return bad
    res = outcome[1]
    rv, ov, iv = cview(res), cview(outer), cview(inner)
    if not isinstance(res, _signatures.UpgradedSignature) or not all(isinstance(p, _signatures.UpgradedParameter) for p in res.parameters.values()) \
            or '+depths' not in getattr(res, 'sources', {}):
        bad.append(('post:wellformed:upgraded_with_depths', 'not upgraded'))
    nohide = not fl.get('hide_args') and not fl.get('hide_kwargs')
    po = {p.name for p in inner.parameters.values() if p.kind == p.POSITIONAL_ONLY}
    if nohide and len(set(names)) == len(names) and not (set(names) & po):
        if fl.get('partial'):
            from .spec import P as _P, View as _V
            iv = _V([_P(p.name, p.kind, True if p.kind in (PO, POK, KWO) else p.has) for p in iv.params])
        pool = all_names([outer, inner]) + [x for x in names if x not in outer.parameters and x not in inner.parameters]
        if maxn is None:
            maxn = npos(outer) + npos(inner) + 2
        kp = kw_passable_names(outer)
        uv, uk = fl.get('use_varargs', True), fl.get('use_varkwargs', True)
        no_outer_default = all(p.default is p.empty for p in outer.parameters.values() if p.kind in (p.POSITIONAL_ONLY, p.POSITIONAL_OR_KEYWORD))
        for m, ks in call_shapes(pool, maxn):
            if set(ks) & set(names):
                continue
            if not spec.noncolliding(PyOps, rv, [ov, cview(inner)], ccall(m, ks)):
                continue
            a = real_accepts(rv, m, ks)
            sp = max(0, m - npos(outer)) if uv else 0
            sk = tuple(k for k in ks if k not in kp) if uk else ()
            e = real_accepts(ov, m, ks) and real_accepts(iv, n + sp, tuple(sk) + tuple(names))
            if a and not e:
                bad.append(('post:sound', 'call %r' % ((m, ks),)))
                break
            if e and not a and not fl.get('partial') and no_outer_default:
                bad.append(('post:exact', 'call %r' % ((m, ks),)))
                break
    for p in res.parameters.values():
        if ua_bad(p, [outer.parameters.get(p.name), inner.parameters.get(p.name)]):
            bad.append(('post:ua_follows', '%s: %s' % (p.name, ua_bad(p, [outer.parameters.get(p.name), inner.parameters.get(p.name)]))))
        if fl.get('partial') and p.name in inner.parameters and p.name not in outer.parameters and p.kind not in (p.VAR_POSITIONAL, p.VAR_KEYWORD) and p.default is p.empty:
            bad.append(('post:meta_partial_all_optional', p.name))
    for c, d in check_sources_wf(res, fn_declares):
        bad.append(('post:' + c, d))
    if any(res.sources is s.sources for s in (outer, inner)) or any(v2 is v1 for v1 in res.sources.values() for s in (outer, inner) for v2 in s.sources.values()):
        bad.append(('frame:fresh_sources', 'shared provenance container'))
    return bad


# --------------------------------------------------------------------------- retrieval / partial
def check_plain_retrieval(fn, outcome, owner=None):
    owner = fn if owner is None else owner      # the object inspected (a functools.wraps wrapper of fn, or fn itself)
    import inspect as _inspect
    real_sigtools()
    from sigtools import _signatures
    if outcome[0] == 'raise':
        return [('post:is_def_signature:no_exception', repr(outcome[1]))]
    res = outcome[1]
    bad = []
    d = _inspect.signature(fn)
    if not isinstance(res, _signatures.UpgradedSignature) or not all(isinstance(p, _signatures.UpgradedParameter) for p in res.parameters.values()):
        bad.append(('post:is_def_signature:upgraded', ''))
    if params_data(res) != params_data(d):
        bad.append(('post:is_def_signature:parameters', '%s vs %s' % (res, d)))
    exp = {n: [owner] for n in d.parameters}
    exp['+depths'] = {owner: 0}
    if res.sources != exp:
        bad.append(('post:is_def_signature:provenance', repr(res.sources)))

    def denoted(raw):
        # what the annotation denotes in the globals of the function that DEFINED it
        return eval(raw, fn.__globals__, {}) if isinstance(raw, str) else raw
    for p in list(res.parameters.values()) + [None]:
        raw = p.annotation if p is not None else res.return_annotation
        ua = p.upgraded_annotation if p is not None else res.upgraded_return_annotation
        name = p.name if p is not None else 'return'
        if raw is _inspect.Signature.empty:
            continue
        try:
            got = ua.source_value()
        except Exception as e:
            got = ('source_value raises', repr(e))
        if got != denoted(raw):
            bad.append(('post:is_def_signature:ua', '%s: source_value() gives %r, the annotation denotes %r in the globals of %s' % (name, got, denoted(raw), fn.__name__)))
            bad.append(('post:ua_follows:ua', name))
    return bad


def check_partial(fn, pobj, n, kw, outcome, maxn=None):
    import inspect as _inspect
    real_sigtools()
    from sigtools import _signatures
    bad = []
    d = _inspect.signature(fn)
    dv = cview(d)
    po = {p.name for p in d.parameters.values() if p.kind == p.POSITIONAL_ONLY}
    applicable = not (set(kw) & po)
    pool = list(d.parameters) + [k for k in kw if k not in d.parameters]
    if maxn is None:
        maxn = npos(d) + 2
    shapes_ = list(call_shapes(pool, maxn))

    def really(m, ks):
        try:
            pobj(*([0] * m), **{k: 0 for k in ks})
            return True
        except TypeError:
            return False
    if outcome[0] == 'raise':
        if not isinstance(outcome[1], ValueError):
            bad.append(('raises:only_ValueError:type', repr(outcome[1])))
        elif applicable:
            for m, ks in shapes_:
                if really(m, ks):
                    bad.append(('raises:only_if_impossible', 'the partial object accepts %r' % ((m, ks),)))
                    break
        return bad
    res = outcome[1]
    rv = cview(res)
    if applicable:
        for m, ks in shapes_:
            if not spec.noncolliding(PyOps, rv, [dv], ccall(m, ks)):
                continue
            a, e = real_accepts(rv, m, ks), really(m, ks)
            if a != e:
                bad.append(('post:partial_exact', 'call %r: signature %s, partial object %s' % ((m, ks), a, e)))
                break
        for k, v in kw.items():
            p = res.parameters.get(k)
            if p is None or p.kind != p.KEYWORD_ONLY or p.default != v:
                bad.append(('post:partial_keywords:bound_keyword_is_kwo_with_value', k))
        if any(k in d.parameters and d.parameters[k].kind == _inspect.Parameter.POSITIONAL_OR_KEYWORD for k in kw) and rv.V:
            bad.append(('post:partial_keywords:varargs_removed', ''))
        for p in res.parameters.values():
            o = d.parameters.get(p.name)
            if o is None:
                if p.name not in kw:
                    bad.append(('post:partial_keywords:others_unchanged', p.name))
                continue
            if p.annotation != o.annotation or (p.name not in kw and p.default != o.default):
                bad.append(('post:partial_keywords:others_unchanged', p.name))
    dep = res.sources.get('+depths', {})
    if dep != {pobj: 0, fn: 1}:
        bad.append(('post:partial_sources:depths', repr(dep)))
    for p in res.parameters.values():
        bound_here = p.name in d.parameters and not (d.parameters[p.name].kind in (p.VAR_POSITIONAL, p.VAR_KEYWORD) and p.kind == p.KEYWORD_ONLY)
        exp = [fn] if bound_here else [pobj]
        if res.sources.get(p.name) != exp:
            bad.append(('post:partial_sources:entry', '%s: %r' % (p.name, res.sources.get(p.name))))
    for k in res.sources:
        if k != '+depths' and k not in res.parameters:
            bad.append(('post:partial_sources:key_is_parameter', k))
    for p in res.parameters.values():
        want = p.annotation
        if isinstance(want, str) and p.name in d.parameters:
            want = eval(want, fn.__globals__, {})
        if p.upgraded_annotation.source_value() != want:
            bad.append(('post:ua_follows', p.name))
    return bad
