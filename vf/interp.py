"""AST interpreter over the REAL sigtools sources (re-read from $VF_REPO on every run).

The interpreted program's values are host objects: lists/tuples/ints/strs are themselves, dict/set are
association lists (sym.SymDict/SymSet), sigtools' own classes are interpreted classes (IClass/Inst) whose
methods are the real methods from the AST, with trusted native models underneath for inspect.Parameter,
inspect.Signature, ast.NodeVisitor, MutableMapping (vf/models.py).

Statement execution functions are host generators so that interpreted generator functions suspend naturally.
"""
import ast
import types
import hashlib
import os
import sys

from . import sym
from .sym import (PyExc, EngineLimit, EngineError, SymBool, SymInt, SymName, SymVal, SymRef, Opaque, MV, EMPTY,
                  SymDict, SymSet, py_eq, py_is, zint, TList)
import z3

sys.setrecursionlimit(20000)

REPO = os.environ.get('VF_REPO', '/repo')


# --------------------------------------------------------------------------- control flow signals
class ReturnEx(Exception):
    def __init__(self, v):
        self.v = v


class BreakEx(Exception):
    pass


class ContinueEx(Exception):
    pass


# --------------------------------------------------------------------------- source index
class SourceIndex:
    """parses every sigtools/*.py of the tree under verification; keeps hashes for the evidence"""

    def __init__(self, repo=None):
        self.repo = repo or REPO
        self.trees = {}
        self.hashes = {}
        self.texts = {}

    def load(self, modname):
        if modname in self.trees:
            return self.trees[modname]
        rel = modname.replace('.', '/') + '.py'
        path = os.path.join(self.repo, rel)
        if not os.path.exists(path):
            path = os.path.join(self.repo, modname.replace('.', '/'), '__init__.py')
        with open(path, 'rb') as f:
            data = f.read()
        self.hashes[modname] = hashlib.sha256(data).hexdigest()
        text = data.decode('utf-8')
        self.texts[modname] = text
        tree = ast.parse(text, filename=path)
        self.trees[modname] = tree
        return tree

    def units(self, modname):
        """qualified names of all functions / methods found in a module"""
        out = []

        def walk(body, prefix):
            for n in body:
                if isinstance(n, (ast.FunctionDef, ast.AsyncFunctionDef)):
                    out.append(prefix + n.name)
                    walk(n.body, prefix + n.name + '.<locals>.')
                elif isinstance(n, ast.ClassDef):
                    walk(n.body, prefix + n.name + '.')
                elif isinstance(n, (ast.If, ast.Try)):
                    walk(n.body, prefix)
                    walk(getattr(n, 'orelse', []), prefix)
        walk(self.load(modname).body, '')
        return out

    def find_def(self, modname, qualname):
        """AST node of a function by qualified name (first definition in source order wins at module
        level only when guarded by the interpreter; here: the last one, as at run time)"""
        parts = qualname.split('.')
        body = self.load(modname).body
        node = None
        for p in parts:
            found = None
            stack = list(body)
            while stack:
                n = stack.pop(0)
                if isinstance(n, (ast.FunctionDef, ast.AsyncFunctionDef, ast.ClassDef)) and n.name == p:
                    found = n
                elif isinstance(n, (ast.If, ast.Try)):
                    stack = list(n.body) + list(getattr(n, 'orelse', [])) + stack
            if found is None:
                return None
            node = found
            body = found.body
        return node


_INDEX = None


def source_index():
    global _INDEX
    if _INDEX is None or _INDEX.repo != os.environ.get('VF_REPO', '/repo'):
        _INDEX = SourceIndex(os.environ.get('VF_REPO', '/repo'))
    return _INDEX


# --------------------------------------------------------------------------- runtime objects
class Frame:
    __slots__ = ('vars', 'parent', 'module', 'nonlocals', 'globals_decl', 'fn', 'first_arg', 'is_class')

    def __init__(self, parent, module, fn=None):
        self.vars = {}
        self.parent = parent
        self.module = module
        self.nonlocals = None
        self.globals_decl = None
        self.fn = fn
        self.first_arg = None
        self.is_class = False


def _contains_yield(node):
    r = getattr(node, '_vf_is_gen', None)
    if r is None:
        r = _contains_yield0(node)
        node._vf_is_gen = r
    return r


def _contains_yield0(node):
    stack = list(node.body) if isinstance(node.body, list) else [node.body]
    while stack:
        n = stack.pop()
        if isinstance(n, (ast.Yield, ast.YieldFrom)):
            return True
        if isinstance(n, (ast.FunctionDef, ast.AsyncFunctionDef, ast.Lambda, ast.ClassDef)):
            continue
        stack.extend(ast.iter_child_nodes(n))
    return False


class Closure:
    def __init__(self, node, env, module, interp, qualname):
        self.node = node
        self.env = env
        self.module = module
        self.interp = interp
        self.qualname = qualname
        self.__name__ = getattr(node, 'name', '<lambda>')
        self.is_gen = _contains_yield(node)
        self.owner_cls = None
        self.kwonly_override = None     # set of parameter names turned keyword-only by a modelled decorator
        self.decorators_dropped = []
        a = node.args
        self.defaults = [interp.ev(d, env_frame(env, module)) for d in a.defaults]
        self.kw_defaults = [None if d is None else interp.ev(d, env_frame(env, module)) for d in a.kw_defaults]
        self.attrs = {}

    def __call__(self, *args, **kwargs):
        return self.interp.call(self, list(args), list(kwargs.items()))

    def __repr__(self):
        return '<closure %s>' % self.qualname

    def __bool__(self):
        return True


def env_frame(env, module):
    if env is not None:
        return env
    f = Frame(None, module)
    f.vars = module.ns
    return f


class BoundMethod:
    def __init__(self, func, self_obj):
        self.__func__ = func
        self.__self__ = self_obj
        self.__name__ = getattr(func, '__name__', '?')

    def __call__(self, *args, **kwargs):
        return self.__func__.interp.call(self, list(args), list(kwargs.items()))

    def __repr__(self):
        return '<bound %r of %r>' % (self.__func__, type(self.__self__).__name__)

    def __bool__(self):
        return True


class ClassMethod:
    def __init__(self, f):
        self.f = f


class StaticMethod:
    def __init__(self, f):
        self.f = f


class Property:
    def __init__(self, fget):
        self.fget = fget


class IModule:
    def __init__(self, name, interp):
        self.name = name
        self.ns = {'__name__': name}
        self.interp = interp
        self.loaded = False

    def __repr__(self):
        return '<imodule %s>' % self.name


class NativeBase:
    """marker for trusted native models usable as base classes of interpreted classes; methods take the
    interpreted instance as ``self``"""
    _vf_native = True


class IClass:
    def __init__(self, name, bases, ns, module, interp, node=None):
        self.name = name
        self.__name__ = name
        self.bases = bases
        self.ns = ns
        self.module = module
        self.interp = interp
        self.node = node
        mro = [self]
        for b in bases:
            if isinstance(b, IClass):
                for c in b.mro:
                    if c not in mro:
                        mro.append(c)
            else:
                for c in b.__mro__:
                    if c not in mro:
                        mro.append(c)
        if object in mro:
            mro.remove(object)
        mro.append(object)
        self.mro = mro
        self.__module__ = module.name if module else '?'

    def lookup(self, name, after=None):
        """class attribute through the MRO; returns (found, value, owner)"""
        started = after is None
        for c in self.mro:
            if not started:
                if c is after:
                    started = True
                continue
            if isinstance(c, IClass):
                if name in c.ns:
                    return True, c.ns[name], c
            else:
                d = c.__dict__
                if name in d:
                    return True, d[name], c
        return False, None, None

    def is_subclass_of(self, other):
        return other in self.mro

    def __call__(self, *args, **kwargs):
        return self.interp.instantiate(self, list(args), list(kwargs.items()))

    def __repr__(self):
        return '<iclass %s>' % self.name

    def __bool__(self):
        return True


class Inst:
    """instance of an interpreted class"""

    def __init__(self, cls):
        object.__setattr__(self, '_cls', cls)
        object.__setattr__(self, '_d', {})

    # --- host protocol delegating to the interpreted class (lets native models use insts directly)
    def __getattr__(self, name):
        if name.startswith('_vf_'):
            raise AttributeError(name)
        try:
            return self._cls.interp.getattr_inst(self, name)
        except PyExc as e:
            if e.typ is AttributeError or (isinstance(e.typ, type) and issubclass(e.typ, AttributeError)):
                raise AttributeError(name)
            raise

    def __setattr__(self, name, value):
        self._cls.interp.setattr_(self, name, value)

    def __delattr__(self, name):
        self._cls.interp.delattr_(self, name)

    def _special(self, name):
        found, v, owner = self._cls.lookup(name)
        if not found or owner is object:
            return None
        return self._cls.interp.bind_class_attr(v, self, self._cls, owner)

    def __iter__(self):
        m = self._special('__iter__')
        if m is None:
            raise PyExc(TypeError, ('not iterable',))
        return iter(self._cls.interp.call(m, [], []))

    def __call__(self, *args, **kwargs):
        return self._cls.interp.call(self, list(args), list(kwargs.items()))

    def __bool__(self):
        m = self._special('__bool__')
        if m is not None:
            return bool(self._cls.interp.call(m, [], []))
        m = self._special('__len__')
        if m is not None:
            return bool(self._cls.interp.call(m, [], []) != 0)
        return True

    def __len__(self):
        m = self._special('__len__')
        if m is None:
            raise TypeError('no len')       # host protocol (list() probes it); b_len converts
        return self._cls.interp.call(m, [], [])

    def __contains__(self, x):
        m = self._special('__contains__')
        if m is not None:
            return bool(self._cls.interp.call(m, [x], []))
        for y in self:
            if py_eq(x, y):
                return True
        return False

    def __getitem__(self, k):
        m = self._special('__getitem__')
        if m is None:
            raise PyExc(TypeError, ('not subscriptable',))
        return self._cls.interp.call(m, [k], [])

    def __setitem__(self, k, v):
        m = self._special('__setitem__')
        if m is None:
            raise PyExc(TypeError, ('no item assignment',))
        return self._cls.interp.call(m, [k, v], [])

    def _vf_eq(self, other):
        m = self._special('__eq__')
        if m is None:
            return NotImplemented
        r = self._cls.interp.call(m, [other], [])
        if r is NotImplemented:
            return NotImplemented
        return bool(r)

    def __repr__(self):
        return '<inst %s>' % self._cls.name

    def __hash__(self):
        return id(self)

    def __eq__(self, other):
        return self is other


class SuperProxy:
    def __init__(self, cls, obj):
        self.cls = cls
        self.obj = obj


class PartialObj:
    """functools.partial object created by interpreted code"""

    def __init__(self, func, args, kwpairs):
        self.func = func
        self.args = tuple(args)
        self.keywords = SymDict(kwpairs)
        self.attrs = {}

    def __repr__(self):
        return '<partial %r>' % (self.func,)

    def __bool__(self):
        return True


class ExcValue:
    """value bound by ``except E as e`` for host exception classes"""

    def __init__(self, typ, args):
        self.typ = typ
        self.args = tuple(args)


class _Unavailable:
    def __init__(self, why):
        self.why = why


# --------------------------------------------------------------------------- the interpreter
class Interp:
    def __init__(self, index=None):
        from . import models
        self.index = index or source_index()
        self.modules = {}
        self.models = models
        self.builtins = models.make_builtins(self)
        self.call_hooks = {}       # qualname -> fn(interp, closure, args, kwpairs) -> result | NotImplemented
        self.boundary_hooks = {}   # qualname -> fn(interp, closure, args, kwpairs, outcome)
        self.external_call = None  # fn(interp, callee, args, kwpairs) for symbolic callables
        self.stats = {'calls': 0}
        self.units_entered = set()
        self.summaries_used = set()     # callees replaced by their contract (mode 'summarise') on some path
        self.externals_used = set()     # calls that leave sigtools, modelled
        self.depth = 0

    # ------------------------------------------------------------------ modules
    def module(self, name):
        if name.startswith('sigtools.') and 'sigtools' not in self.modules:
            self.module('sigtools')      # as in CPython: the package's __init__ runs before any of its submodules
        m = self.modules.get(name)
        if m is None:
            m = IModule(name, self)
            self.modules[name] = m
        if not m.loaded:
            m.loaded = True
            tree = self.index.load(name)
            f = Frame(None, m)
            f.vars = m.ns
            try:
                for _ in self.exec_block(tree.body, f, toplevel=True):
                    raise EngineLimit('yield at module level')
            except (ReturnEx, BreakEx, ContinueEx):
                raise EngineError('control flow escaped module %s' % name)
        return m

    def import_module(self, name):
        if name == 'sigtools' or name.startswith('sigtools.'):
            return self.module(name)
        m = self.models.native_module(self, name)
        if m is None:
            raise EngineLimit('import of unmodelled module %s' % name)
        return m

    # ------------------------------------------------------------------ names
    def lookup(self, name, frame):
        f = frame
        while f is not None:
            if not f.is_class or f is frame:
                if name in f.vars:
                    v = f.vars[name]
                    if isinstance(v, _Unavailable):
                        raise EngineLimit('name %s unavailable: %s' % (name, v.why))
                    return v
            f = f.parent
        ns = frame.module.ns
        if name in ns:
            v = ns[name]
            if isinstance(v, _Unavailable):
                raise EngineLimit('name %s unavailable: %s' % (name, v.why))
            return v
        if name in self.builtins:
            return self.builtins[name]
        raise PyExc(NameError, (name,))

    def store(self, name, v, frame):
        if frame.nonlocals and name in frame.nonlocals:
            f = frame.parent
            while f is not None:
                if name in f.vars and not f.is_class:
                    f.vars[name] = v
                    return
                f = f.parent
            raise EngineError('nonlocal %s not found' % name)
        if frame.globals_decl and name in frame.globals_decl:
            frame.module.ns[name] = v
            return
        frame.vars[name] = v

    # ------------------------------------------------------------------ calls
    def call(self, f, args, kwpairs):
        self.stats['calls'] += 1
        if isinstance(f, Closure):
            return self.call_closure(f, args, kwpairs)
        if isinstance(f, BoundMethod):
            return self.call(f.__func__, [f.__self__] + list(args), kwpairs)
        if isinstance(f, IClass):
            return self.instantiate(f, args, kwpairs)
        if isinstance(f, Inst):
            m = f._special('__call__')
            if m is None:
                raise PyExc(TypeError, ('object not callable',))
            return self.call(m, args, kwpairs)
        if isinstance(f, PartialObj):
            return self.call(f.func, list(f.args) + list(args), _merge_kw(f.keywords.items_, kwpairs))
        if hasattr(f, '_vf_call'):
            return f._vf_call(self, args, kwpairs)
        if getattr(f, '_vf_pairs', False):
            return f(args, kwpairs)
        if callable(f):
            kw = {}
            for k, v in kwpairs:
                if not isinstance(k, str):
                    raise EngineLimit('symbolic keyword to native callable %r' % (f,))
                kw[k] = v
            return self.call_native(f, args, kw)
        raise PyExc(TypeError, ('%r object is not callable' % type(f).__name__,))

    def call_native(self, f, args, kw):
        try:
            return f(*args, **kw)
        except (PyExc, EngineLimit, EngineError, sym.Infeasible, ReturnEx, BreakEx, ContinueEx):
            raise
        except StopIteration:
            raise
        except (IndexError, KeyError, ValueError, AttributeError) as e:
            # host container operations (list.pop on empty list, list.index, tuple.index ...)
            mod = getattr(f, '__module__', None)
            if getattr(f, '__self__', None) is not None and isinstance(f.__self__, (list, tuple, str, dict)):
                raise PyExc(type(e), e.args)
            raise EngineError('native callable %r raised %r' % (f, e))

    def instantiate(self, cls, args, kwpairs):
        found, new, owner = cls.lookup('__new__')
        if found and isinstance(owner, IClass):
            if isinstance(new, StaticMethod):
                new = new.f
            o = self.call(new, [cls] + list(args), kwpairs)
            if not (isinstance(o, Inst) and o._cls.is_subclass_of(cls)):
                return o
        else:
            o = Inst(cls)
        found, init, owner = cls.lookup('__init__')
        if found and owner is not object:
            if isinstance(owner, type) and issubclass(owner, BaseException):
                # BaseException.__init__(*args): stores the arguments (class UnknownForwards(ValueError): pass)
                o._d['args'] = tuple(args)
            else:
                self.call(init, [o] + list(args), kwpairs)
        elif args or kwpairs:
            raise PyExc(TypeError, ('%s() takes no arguments' % cls.name,))
        return o

    def call_closure(self, f, args, kwpairs):
        hook = self.call_hooks.get(f.qualname)
        if hook is not None:
            r = hook(self, f, args, kwpairs)
            if r is not NotImplemented:
                self.summaries_used.add(f.qualname)
                return r
        self.units_entered.add(f.qualname)
        frame = self.bind(f, args, kwpairs)
        if f.is_gen:
            return self.run_gen(f, frame)
        bh = self.boundary_hooks.get(f.qualname)
        self.depth += 1
        try:
            if isinstance(f.node, ast.Lambda):
                r = self.ev(f.node.body, frame)
            else:
                try:
                    for _ in self.exec_block(f.node.body, frame):
                        raise EngineLimit('yield in non-generator')
                    r = None
                except ReturnEx as rx:
                    r = rx.v
        except PyExc as e:
            if e.where is None:
                e.where = f.qualname
            if bh is not None:
                bh(self, f, frame, ('raise', e))
            raise
        finally:
            self.depth -= 1
        if bh is not None:
            bh(self, f, frame, ('return', r))
        return r

    def run_gen(self, f, frame):
        try:
            yield from self.exec_block(f.node.body, frame)
        except ReturnEx:
            return

    def bind(self, f, args, kwpairs):
        a = f.node.args
        frame = Frame(f.env, f.module, fn=f)
        args = list(args)
        kw = list(kwpairs)
        pos_only = [x.arg for x in a.posonlyargs]
        pos = pos_only + [x.arg for x in a.args]
        kwonly = [x.arg for x in a.kwonlyargs]
        kwonly_defaults = dict(zip(kwonly, f.kw_defaults))
        ndef = len(f.defaults)
        defaults = dict(zip(pos[len(pos) - ndef:], f.defaults)) if ndef else {}
        has_default = set(defaults) | {k for k, d in zip(kwonly, a.kw_defaults) if d is not None}
        if f.kwonly_override:
            moved = [p for p in pos if p in f.kwonly_override]
            pos = [p for p in pos if p not in f.kwonly_override]
            kwonly = kwonly + moved
            for p in moved:
                if p in defaults:
                    kwonly_defaults[p] = defaults[p]
        if args:
            frame.first_arg = args[0]
        v = frame.vars
        npos = len(pos)
        if len(args) > npos and not a.vararg:
            raise PyExc(TypeError, ('%s() takes %d positional arguments but %d were given' % (f.__name__, npos, len(args)),))
        for i, p in enumerate(pos):
            if i < len(args):
                v[p] = args[i]
        if a.vararg:
            v[a.vararg.arg] = tuple(args[npos:])
        extra = []
        for k, val in kw:
            if isinstance(k, str) and ((k in pos and k not in pos_only) or k in kwonly):
                if k in v:
                    raise PyExc(TypeError, ('%s() got multiple values for argument %r' % (f.__name__, k),))
                v[k] = val
            else:
                extra.append((k, val))
        for p in pos:
            if p not in v:
                if p in defaults:
                    v[p] = defaults[p]
                else:
                    raise PyExc(TypeError, ('%s() missing required positional argument %r' % (f.__name__, p),))
        for p in kwonly:
            if p not in v:
                if p in has_default or p in kwonly_defaults:
                    v[p] = kwonly_defaults.get(p)
                else:
                    raise PyExc(TypeError, ('%s() missing required keyword-only argument %r' % (f.__name__, p),))
        if a.kwarg:
            d = SymDict()
            d.items_ = list(extra)
            v[a.kwarg.arg] = d
        elif extra:
            raise PyExc(TypeError, ('%s() got an unexpected keyword argument %r' % (f.__name__, extra[0][0]),))
        return frame

    # ------------------------------------------------------------------ attributes
    def bind_class_attr(self, v, inst, cls, owner):
        """descriptor protocol for a class attribute found through the MRO, accessed on ``inst``
        (``inst`` None = access on the class)"""
        if isinstance(v, Closure):
            return BoundMethod(v, inst) if inst is not None else v
        if isinstance(v, ClassMethod):
            return BoundMethod(v.f, cls)
        if isinstance(v, StaticMethod):
            return v.f
        if isinstance(v, Property):
            if inst is None:
                return v
            return self.call(v.fget, [inst], [])
        if isinstance(v, property):
            if inst is None:
                return v
            return v.fget(inst)
        if isinstance(v, (classmethod,)):
            return _NativeBound(v.__func__, cls)
        if isinstance(v, staticmethod):
            return v.__func__
        if not isinstance(owner, IClass) and callable(v) and not isinstance(v, type) and hasattr(v, '__get__') \
                and type(v).__name__ == 'function':
            return _NativeBound(v, inst) if inst is not None else v
        if isinstance(v, Inst):
            found, g, _ = v._cls.lookup('__get__')
            if found:
                return self.call(g, [v, inst, cls], [])
        if getattr(v, '_vf_function_like', False):
            return v._vf_bind(inst) if inst is not None else v
        return v

    def getattr_inst(self, inst, name):
        cls = inst._cls
        if name == '__class__':
            return cls
        if name == '__dict__':
            return _DictView(inst)
        found, v, owner = cls.lookup(name)
        if found and isinstance(v, (Property, property)):
            return self.bind_class_attr(v, inst, cls, owner)
        d = inst._d
        if name in d:
            return d[name]
        if found and owner is not object:
            return self.bind_class_attr(v, inst, cls, owner)
        if found and owner is object and name in ('__init__', '__new__', '__eq__', '__hash__', '__repr__', '__str__',
                                                  '__ne__', '__setattr__', '__getattribute__', '__delattr__'):
            return _NativeBound(self.models.OBJECT_METHODS[name], inst) if name in self.models.OBJECT_METHODS else v
        f2, ga, _ = cls.lookup('__getattr__')
        if f2:
            return self.call(ga, [inst, name], [])
        raise PyExc(AttributeError, ('%r object has no attribute %r' % (cls.name, name),))

    def getattr_(self, o, name):
        if isinstance(o, Inst):
            return self.getattr_inst(o, name)
        if isinstance(o, IClass):
            if name == '__name__':
                return o.name
            if name == '__mro__':
                return tuple(o.mro)
            if name == '__dict__':
                return SymDict([(k, v) for k, v in o.ns.items()])
            found, v, owner = o.lookup(name)
            if not found:
                raise PyExc(AttributeError, ('type object %r has no attribute %r' % (o.name, name),))
            return self.bind_class_attr(v, None, o, owner)
        if isinstance(o, IModule):
            if name in o.ns:
                v = o.ns[name]
                if isinstance(v, _Unavailable):
                    raise EngineLimit('module attribute %s.%s unavailable: %s' % (o.name, name, v.why))
                return v
            raise PyExc(AttributeError, ('module %r has no attribute %r' % (o.name, name),))
        if isinstance(o, SuperProxy):
            cls = o.obj._cls if isinstance(o.obj, Inst) else o.obj
            found, v, owner = cls.lookup(name, after=o.cls)
            if not found:
                raise PyExc(AttributeError, ('super object has no attribute %r' % name,))
            if owner is object:
                if name in self.models.OBJECT_METHODS:
                    return _NativeBound(self.models.OBJECT_METHODS[name], o.obj)
            if isinstance(o.obj, Inst):
                return self.bind_class_attr(v, o.obj, cls, owner)
            if isinstance(v, Closure) or callable(v):     # super(C, cls).__new__
                return v.f if isinstance(v, StaticMethod) else v
            return v
        if hasattr(o, '_vf_getattr'):
            return o._vf_getattr(self, name)
        if isinstance(o, Closure):
            if name in o.attrs:
                return o.attrs[name]
            if name == '__name__':
                return o.__name__
            if name == '__get__':
                return lambda inst, owner=None: o if inst is None else BoundMethod(o, inst)
            raise PyExc(AttributeError, ('function has no attribute %r' % name,))
        if isinstance(o, BoundMethod):
            if name in ('__func__', '__self__', '__name__'):
                return getattr(o, name)
            return self.getattr_(o.__func__, name)
        if isinstance(o, PartialObj):
            if name in ('func', 'args', 'keywords'):
                return getattr(o, name)
            if name in o.attrs:
                return o.attrs[name]
            raise PyExc(AttributeError, ('partial has no attribute %r' % name,))
        if isinstance(o, (str, Opaque)):
            if name in ('format', 'join', 'split', 'lstrip', 'rpartition', 'startswith', 'strip'):
                if isinstance(o, str) and name in ('format', 'join'):
                    return (lambda *a, **k: self.models.str_format(self, o, a, k)) if name == 'format' else \
                        (lambda it: self.models.str_join(self, o, it))
                if isinstance(o, Opaque) or name in ('format', 'join'):
                    op = o if isinstance(o, Opaque) else Opaque()
                    if name in ('format', 'join'):
                        return getattr(op, name)
                    raise EngineLimit('string method %s on opaque string' % name)
                return getattr(o, name)
            raise EngineLimit('string attribute %s' % name)
        if isinstance(o, SymName):
            raise EngineLimit('string attribute %s on symbolic name' % name)
        if isinstance(o, list):
            if name == 'index':
                return lambda x, *r: _list_index(o, x)
            if name == 'remove':
                return lambda x: _list_remove(o, x)
            if name == 'count':
                return lambda x: sum(1 for y in o if py_eq(y, x))
            if name == 'extend':
                return lambda it: o.extend(list(it))
            return getattr(o, name)
        if isinstance(o, tuple):
            if hasattr(o, '_fields') and name in o._fields:
                return getattr(o, name)
            if name == 'index':
                return lambda x, *r: _list_index(o, x)
            if name == 'count':
                return lambda x: sum(1 for y in o if py_eq(y, x))
            return getattr(o, name)
        if isinstance(o, (SymDict, SymSet)):
            try:
                return getattr(o, name)
            except AttributeError:
                raise EngineLimit('container method %s' % name)
        if isinstance(o, (SymBool, SymInt, SymVal, SymRef, MV)):
            raise EngineLimit('attribute %s on symbolic scalar %r' % (name, o))
        if o is None or isinstance(o, (int, bool, float)):
            raise PyExc(AttributeError, ('%r object has no attribute %r' % (type(o).__name__, name),))
        try:
            return getattr(o, name)
        except AttributeError:
            raise PyExc(AttributeError, ('%r object has no attribute %r' % (type(o).__name__, name),))

    def setattr_(self, o, name, v):
        if isinstance(o, Inst):
            found, cv, owner = o._cls.lookup('__setattr__')
            if found and isinstance(owner, IClass):
                return self.call(cv, [o, name, v], [])
            sym.note_write(o)
            o._d[name] = v
            return
        if isinstance(o, IClass):
            o.ns[name] = v
            return
        if hasattr(o, '_vf_setattr'):
            return o._vf_setattr(self, name, v)
        if isinstance(o, (Closure, PartialObj)):
            o.attrs[name] = v
            return
        if isinstance(o, IModule):
            o.ns[name] = v
            return
        if isinstance(o, ast.AST):
            setattr(o, name, v)
            return
        raise PyExc(AttributeError, ('cannot set attribute %r on %r' % (name, type(o).__name__),))

    def delattr_(self, o, name):
        if isinstance(o, Inst):
            if name in o._d:
                sym.note_write(o)
                del o._d[name]
                return
            raise PyExc(AttributeError, (name,))
        if hasattr(o, '_vf_delattr'):
            return o._vf_delattr(self, name)
        if isinstance(o, (Closure, PartialObj)):
            if name in o.attrs:
                del o.attrs[name]
                return
            raise PyExc(AttributeError, (name,))
        raise PyExc(AttributeError, (name,))

    # ------------------------------------------------------------------ statements
    def exec_block(self, stmts, frame, toplevel=False):
        for s in stmts:
            if toplevel:
                yield from self.exec_toplevel(s, frame)
            else:
                yield from self.exec_stmt(s, frame)

    def exec_toplevel(self, s, frame):
        """module-level statements: tolerate what is outside the subset by marking the names unavailable"""
        try:
            yield from self.exec_stmt(s, frame)
        except EngineLimit as e:
            names = []
            if isinstance(s, ast.Assign):
                for t in s.targets:
                    names += [n.id for n in ast.walk(t) if isinstance(n, ast.Name)]
            elif isinstance(s, (ast.FunctionDef, ast.ClassDef)):
                names.append(s.name)
            elif isinstance(s, ast.AnnAssign) and isinstance(s.target, ast.Name):
                names.append(s.target.id)
            elif isinstance(s, (ast.Import, ast.ImportFrom)):
                for al in s.names:
                    names.append((al.asname or al.name).split('.')[0])
            if not names:
                if isinstance(s, (ast.Expr, ast.Delete, ast.If, ast.Try)):
                    return
                raise
            for n in names:
                frame.vars[n] = _Unavailable(str(e))

    def truth(self, v):
        if v is None or v is False:
            return False
        if v is True:
            return True
        if isinstance(v, (IClass, Closure, BoundMethod, IModule)):
            return True
        if v is NotImplemented:
            return True
        return bool(v)

    def assign(self, tgt, v, frame):
        if isinstance(tgt, ast.Name):
            self.store(tgt.id, v, frame)
        elif isinstance(tgt, (ast.Tuple, ast.List)):
            vs = list(self.iter_(v))
            star = [i for i, t in enumerate(tgt.elts) if isinstance(t, ast.Starred)]
            if star:
                i = star[0]
                after = len(tgt.elts) - i - 1
                if len(vs) < len(tgt.elts) - 1:
                    raise PyExc(ValueError, ('not enough values to unpack',))
                for t, x in zip(tgt.elts[:i], vs[:i]):
                    self.assign(t, x, frame)
                self.assign(tgt.elts[i].value, list(vs[i:len(vs) - after]), frame)
                for t, x in zip(tgt.elts[i + 1:], vs[len(vs) - after:]):
                    self.assign(t, x, frame)
            else:
                if len(vs) != len(tgt.elts):
                    raise PyExc(ValueError, ('wrong number of values to unpack (expected %d, got %d)' % (len(tgt.elts), len(vs)),))
                for t, x in zip(tgt.elts, vs):
                    self.assign(t, x, frame)
        elif isinstance(tgt, ast.Attribute):
            self.setattr_(self.ev(tgt.value, frame), tgt.attr, v)
        elif isinstance(tgt, ast.Subscript):
            o = self.ev(tgt.value, frame)
            if isinstance(tgt.slice, ast.Slice):
                lo = self.ev(tgt.slice.lower, frame) if tgt.slice.lower else None
                hi = self.ev(tgt.slice.upper, frame) if tgt.slice.upper else None
                if not isinstance(o, list):
                    raise EngineLimit('slice assignment on %r' % type(o).__name__)
                o[lo:hi] = list(v)
                sym.note_write(o)
            else:
                k = self.ev(tgt.slice, frame)
                self.setitem(o, k, v)
        else:
            raise EngineLimit('assignment target %s' % type(tgt).__name__)

    def setitem(self, o, k, v):
        if isinstance(o, list):
            if isinstance(k, SymInt):
                raise EngineLimit('symbolic list index')
            try:
                o[k] = v
            except IndexError as e:
                raise PyExc(IndexError, e.args)
        elif isinstance(o, (SymDict, Inst)):
            o[k] = v
        elif hasattr(o, '_vf_setitem'):
            o._vf_setitem(self, k, v)
        else:
            raise PyExc(TypeError, ('%r object does not support item assignment' % type(o).__name__,))

    def getitem(self, o, k):
        if isinstance(o, (list, tuple, str)):
            if isinstance(k, SymInt):
                raise EngineLimit('symbolic sequence index')
            try:
                return o[k]
            except IndexError as e:
                raise PyExc(IndexError, e.args)
            except TypeError as e:
                raise PyExc(TypeError, e.args)
        if isinstance(o, (SymDict, Inst)) or (getattr(o, '_vf_container', False) and hasattr(type(o), '__getitem__')):
            return o[k]
        if hasattr(o, '_vf_getitem'):
            return o._vf_getitem(self, k)
        if o is None or isinstance(o, (int, bool)):
            raise PyExc(TypeError, ('%r object is not subscriptable' % type(o).__name__,))
        if isinstance(o, dict):
            try:
                return o[k]
            except KeyError as e:
                raise PyExc(KeyError, e.args)
        raise EngineLimit('subscript on %r' % type(o).__name__)

    def make_function(self, node, frame, qualprefix=None):
        env = frame
        if frame.is_class:
            env = frame.parent
        if frame.parent is None and not frame.is_class and frame.vars is frame.module.ns:
            env = None
        if qualprefix is None:
            qualprefix = self._qualprefix(frame)
        name = getattr(node, 'name', '<lambda>')
        clo = Closure(node, env, frame.module, self, frame.module.name.replace('sigtools.', '') + ':' + qualprefix + name)
        return clo

    def _qualprefix(self, frame):
        parts = []
        f = frame
        while f is not None:
            if f.is_class:
                parts.append(f.vars.get('__qualname_part__', '?'))
            elif f.fn is not None:
                parts.append('<locals>')
                parts.append(f.fn.__name__)
                # a method's own class prefix
                q = f.fn.qualname.split(':', 1)[1]
                return q + '.<locals>.' + '.'.join(reversed(parts[:-2])) + ('.' if parts[:-2] else '')
            f = f.parent
        return ''.join(p + '.' for p in reversed(parts))

    def exec_stmt(self, s, frame):
        t = type(s)
        if t is ast.Expr:
            v = s.value
            if isinstance(v, ast.Yield):
                yield (self.ev(v.value, frame) if v.value is not None else None)
            elif isinstance(v, ast.YieldFrom):
                yield from self.ev(v.value, frame)
            elif isinstance(v, ast.Constant):
                pass
            else:
                self.ev(v, frame)
        elif t is ast.Assign:
            if isinstance(s.value, ast.Yield):
                raise EngineLimit('yield expression value')
            v = self.ev(s.value, frame)
            for tg in s.targets:
                self.assign(tg, v, frame)
        elif t is ast.AnnAssign:
            if s.value is not None:
                self.assign(s.target, self.ev(s.value, frame), frame)
            elif frame.is_class and isinstance(s.target, ast.Name):
                frame.vars.setdefault('__annotations__', []).append(s.target.id)
        elif t is ast.AugAssign:
            tg = s.target
            if isinstance(tg, ast.Name):
                cur = self.lookup(tg.id, frame)
            elif isinstance(tg, ast.Attribute):
                cur = self.getattr_(self.ev(tg.value, frame), tg.attr)
            else:
                cur = self.getitem(self.ev(tg.value, frame), self.ev(tg.slice, frame))
            v = self.ev(s.value, frame)
            r = self.binop(s.op, cur, v, inplace=True)
            self.assign(tg, r, frame)
        elif t is ast.If:
            if self.truth(self.ev(s.test, frame)):
                yield from self.exec_block(s.body, frame)
            else:
                yield from self.exec_block(s.orelse, frame)
        elif t is ast.For:
            itv = self.ev(s.iter, frame)
            if hasattr(itv, '_vf_abstract_iter'):
                yield from self.abstract_for(s, itv, frame)
                return
            it = self.iter_(itv)
            broke = False
            try:
                while True:
                    try:
                        x = next(it)
                    except StopIteration:
                        break
                    self.assign(s.target, x, frame)
                    try:
                        yield from self.exec_block(s.body, frame)
                    except BreakEx:
                        broke = True
                        break
                    except ContinueEx:
                        continue
            finally:
                # CPython drops its only reference to an anonymous iterator when the statement is left: a generator
                # suspended inside try/finally (or a with block) is closed at that very moment, not at some later
                # collection
                if isinstance(s.iter, ast.Call) and isinstance(it, types.GeneratorType):
                    it.close()
            if not broke:
                yield from self.exec_block(s.orelse, frame)
        elif t is ast.While:
            n = 0
            broke = False
            while self.truth(self.ev(s.test, frame)):
                n += 1
                if n > 200:
                    raise EngineLimit('while loop exceeded 200 iterations')
                try:
                    yield from self.exec_block(s.body, frame)
                except BreakEx:
                    broke = True
                    break
                except ContinueEx:
                    continue
            if not broke:
                yield from self.exec_block(s.orelse, frame)
        elif t is ast.Return:
            raise ReturnEx(self.ev(s.value, frame) if s.value is not None else None)
        elif t is ast.Break:
            raise BreakEx()
        elif t is ast.Continue:
            raise ContinueEx()
        elif t is ast.Pass:
            pass
        elif t is ast.Raise:
            if s.exc is None:
                cur = frame.vars.get('__current_exc__')
                f = frame
                while cur is None and f is not None:
                    cur = f.vars.get('__current_exc__')
                    f = f.parent
                if cur is None:
                    raise PyExc(RuntimeError, ('No active exception to reraise',))
                raise cur
            e = self.ev(s.exc, frame)
            raise self.make_exc(e)
        elif t is ast.Try:
            pending = None
            try:
                try:
                    yield from self.exec_block(s.body, frame)
                except PyExc as ex:
                    h = self.match_handler(s.handlers, ex, frame)
                    if h is None:
                        raise
                    if h.name:
                        self.store(h.name, self.exc_value(ex), frame)
                    saved = frame.vars.get('__current_exc__')
                    frame.vars['__current_exc__'] = ex
                    try:
                        yield from self.exec_block(h.body, frame)
                    finally:
                        if saved is None:
                            frame.vars.pop('__current_exc__', None)
                        else:
                            frame.vars['__current_exc__'] = saved
                else:
                    yield from self.exec_block(s.orelse, frame)
            except (ReturnEx, BreakEx, ContinueEx, PyExc) as e:
                pending = e
            except GeneratorExit as e:
                # the interpreted generator this statement runs in is being closed while suspended inside the try body
                # (its consumer left the loop and dropped it): CPython raises GeneratorExit at the yield, so the
                # finally clause runs - now
                pending = e
            if s.finalbody:
                yield from self.exec_block(s.finalbody, frame)
            if pending is not None:
                raise pending
        elif t is ast.With:
            yield from self.exec_with(s, 0, frame)
        elif t is ast.Assert:
            if not self.truth(self.ev(s.test, frame)):
                raise PyExc(AssertionError, ())
        elif t is ast.Delete:
            for tg in s.targets:
                if isinstance(tg, ast.Name):
                    if tg.id in frame.vars:
                        del frame.vars[tg.id]
                    elif tg.id in frame.module.ns and frame.vars is not frame.module.ns and frame.globals_decl and tg.id in frame.globals_decl:
                        del frame.module.ns[tg.id]
                    else:
                        raise PyExc(NameError, (tg.id,))
                elif isinstance(tg, ast.Attribute):
                    self.delattr_(self.ev(tg.value, frame), tg.attr)
                elif isinstance(tg, ast.Subscript) and isinstance(tg.slice, ast.Slice):
                    o = self.ev(tg.value, frame)
                    sl = tg.slice
                    lo = self.ev(sl.lower, frame) if sl.lower else None
                    hi = self.ev(sl.upper, frame) if sl.upper else None
                    if sl.step is not None or not isinstance(o, list):
                        raise EngineLimit('del of a slice of %r' % type(o).__name__)
                    lo = self._concrete_bound(lo, len(o))
                    hi = self._concrete_bound(hi, len(o))
                    if o[lo:hi]:
                        sym.note_write(o)
                    del o[lo:hi]
                elif isinstance(tg, ast.Subscript):
                    o = self.ev(tg.value, frame)
                    k = self.ev(tg.slice, frame)
                    if isinstance(o, (SymDict,)):
                        del o[k]
                    elif isinstance(o, list):
                        del o[k]
                    else:
                        raise EngineLimit('del subscript')
                else:
                    raise EngineLimit('del target')
        elif t is ast.FunctionDef:
            clo = self.make_function(s, frame)
            v = clo
            for d in reversed(s.decorator_list):
                v = self.apply_decorator(d, v, clo, frame)
            self.store(s.name, v, frame)
        elif t is ast.ClassDef:
            self.store(s.name, self.make_class(s, frame), frame)
        elif t is ast.Import:
            for al in s.names:
                m = self.import_module(al.name)
                if al.asname:
                    self.store(al.asname, m, frame)
                else:
                    top = al.name.split('.')[0]
                    self.store(top, self.import_module(top), frame)
        elif t is ast.ImportFrom:
            base = s.module
            for al in s.names:
                try:
                    m = self.import_module(base)
                    v = self.getattr_(m, al.name)
                except PyExc as e:
                    if base.startswith('sigtools') or base == 'sigtools':
                        try:
                            v = self.import_module(base + '.' + al.name)
                        except FileNotFoundError:
                            raise PyExc(ImportError, (al.name,))
                    else:
                        raise PyExc(ImportError, (al.name,))
                self.store(al.asname or al.name, v, frame)
        elif t is ast.Nonlocal:
            frame.nonlocals = (frame.nonlocals or set()) | set(s.names)
        elif t is ast.Global:
            frame.globals_decl = (frame.globals_decl or set()) | set(s.names)
        else:
            raise EngineLimit('statement %s' % t.__name__)

    def exec_with(self, s, i, frame):
        if i == len(s.items):
            yield from self.exec_block(s.body, frame)
            return
        item = s.items[i]
        cm = self.ev(item.context_expr, frame)
        enter = self.getattr_special(cm, '__enter__')
        exit_ = self.getattr_special(cm, '__exit__')
        v = self.call(enter, [], [])
        if item.optional_vars is not None:
            self.assign(item.optional_vars, v, frame)
        try:
            yield from self.exec_with(s, i + 1, frame)
        except PyExc as ex:
            self.pending_with_exc = ex
            r = self.call(exit_, [ex.typ, self.exc_value(ex), None], [])
            if not self.truth(r):
                raise
        except (ReturnEx, BreakEx, ContinueEx):
            self.call(exit_, [None, None, None], [])
            raise
        else:
            self.call(exit_, [None, None, None], [])

    def getattr_special(self, o, name):
        if isinstance(o, Inst):
            m = o._special(name)
            if m is None:
                raise PyExc(AttributeError, (name,))
            return m
        return self.getattr_(o, name)

    def make_exc(self, e):
        if isinstance(e, PyExc):
            return e
        if isinstance(e, IClass):
            if not any(isinstance(c, type) and issubclass(c, BaseException) for c in e.mro):
                raise PyExc(TypeError, ('exceptions must derive from BaseException',))
            e = self.instantiate(e, [], [])
        if isinstance(e, Inst):
            if not any(isinstance(c, type) and issubclass(c, BaseException) for c in e._cls.mro):
                raise PyExc(TypeError, ('exceptions must derive from BaseException',))
            return PyExc(e._cls, e._d.get('args', ()), inst=e)
        if isinstance(e, type) and issubclass(e, BaseException):
            return PyExc(e, ())
        if isinstance(e, ExcValue):
            return PyExc(e.typ, e.args, inst=e)
        if isinstance(e, BaseException):
            return PyExc(type(e), e.args)
        raise PyExc(TypeError, ('exceptions must derive from BaseException',))

    def exc_value(self, ex):
        if ex.inst is not None:
            return ex.inst
        v = ExcValue(ex.typ, ex.eargs)
        ex.inst = v
        return v

    def exc_matches(self, typ, h):
        if isinstance(h, tuple):
            return any(self.exc_matches(typ, x) for x in h)
        if getattr(typ, '_vf_symbolic_exc', False):
            return typ.matches(self, h)       # class of an external exception: solver variable, forks here
        if isinstance(typ, IClass):
            return h in typ.mro or any(isinstance(c, type) and isinstance(h, type) and issubclass(c, h) for c in typ.mro if not isinstance(c, IClass))
        if isinstance(h, IClass):
            return False
        if isinstance(typ, type) and isinstance(h, type):
            return issubclass(typ, h)
        raise EngineLimit('except clause with %r' % (h,))

    def match_handler(self, handlers, ex, frame):
        for h in handlers:
            if h.type is None:
                return h
            ht = self.ev(h.type, frame)
            if self.exc_matches(ex.typ, ht):
                return h
        return None

    def apply_decorator(self, d, v, clo, frame):
        """decorators on definitions. Known ones are modelled; sigtools' own module-level decorators are
        DROPPED (the unit is verified undecorated) except that the keyword-only rewrite of modifiers is
        applied to the binding of the undecorated function (listed assumption DECORATORS)."""
        src = ast.unparse(d)
        if src == 'classmethod':
            return ClassMethod(v)
        if src == 'staticmethod':
            return StaticMethod(v)
        if src == 'property':
            return Property(v)
        if src in ('abc.abstractmethod', 'abstractmethod'):
            return v
        if src.startswith('wraps(') or src.startswith('functools.wraps('):
            return v
        if src in ('contextlib.contextmanager', 'contextmanager'):
            return self.call(self.ev(d, frame), [v], [])      # modelled (models.native_module('contextlib'))
        if frame.fn is not None:
            # decorator inside a function body: evaluate it for real
            dv = self.ev(d, frame)
            return self.call(dv, [v], [])
        clo.decorators_dropped.append(src)
        ko = self.models.kwonly_from_decorator(src, clo)
        if ko:
            clo.kwonly_override = (clo.kwonly_override or set()) | ko
        return v

    def make_class(self, s, frame):
        bases = [self.ev(b, frame) for b in s.bases]
        bases = [b for b in bases if b is not object]
        cf = Frame(frame, frame.module)
        cf.is_class = True
        cf.vars['__qualname_part__'] = s.name
        for _ in self.exec_block(s.body, cf):
            raise EngineLimit('yield in class body')
        ns = dict(cf.vars)
        ns.pop('__qualname_part__', None)
        cls = IClass(s.name, bases, ns, frame.module, self, node=s)
        for v in ns.values():
            f = v.f if isinstance(v, (ClassMethod, StaticMethod)) else (v.fget if isinstance(v, Property) else v)
            if isinstance(f, Closure) and f.owner_cls is None:
                f.owner_cls = cls
        for d in reversed(s.decorator_list):
            src = ast.unparse(d)
            if src.startswith('attr.define') or src.startswith('attr.s') or src.startswith('attrs.define'):
                self.models.attrs_define(self, cls)
            else:
                raise EngineLimit('class decorator %s' % src)
        return cls

    # ------------------------------------------------------------------ expressions
    def ev(self, e, frame):
        m = getattr(self, 'ev_' + type(e).__name__, None)
        if m is None:
            raise EngineLimit('expression %s' % type(e).__name__)
        return m(e, frame)

    def ev_Constant(self, e, f):
        return e.value

    def ev_Name(self, e, f):
        return self.lookup(e.id, f)

    def ev_Attribute(self, e, f):
        return self.getattr_(self.ev(e.value, f), e.attr)

    def ev_Tuple(self, e, f):
        out = []
        for x in e.elts:
            if isinstance(x, ast.Starred):
                out.extend(self.iter_(self.ev(x.value, f)))
            else:
                out.append(self.ev(x, f))
        return tuple(out)

    def ev_List(self, e, f):
        return TList(self.ev_Tuple(e, f))

    def ev_Set(self, e, f):
        return SymSet(self.ev_Tuple(e, f))

    def ev_Dict(self, e, f):
        d = SymDict()
        for k, v in zip(e.keys, e.values):
            if k is None:
                d.update(self.ev(v, f))
            else:
                d[self.ev(k, f)] = self.ev(v, f)
        return d

    def ev_JoinedStr(self, e, f):
        parts = []
        for v in e.values:
            if isinstance(v, ast.FormattedValue):
                x = self.ev(v.value, f)
                if v.format_spec is not None:
                    parts.append(Opaque())
                elif v.conversion == ord('r'):
                    parts.append(self.models.py_repr(self, x))
                else:
                    parts.append(self.models.py_str(self, x))
            else:
                parts.append(self.ev(v, f))
        if all(isinstance(p, str) for p in parts):
            return ''.join(parts)
        return Opaque()

    def ev_BoolOp(self, e, f):
        v = None
        for x in e.values:
            v = self.ev(x, f)
            t = self.truth(v)
            if isinstance(e.op, ast.And) and not t:
                return v
            if isinstance(e.op, ast.Or) and t:
                return v
        return v

    def ev_UnaryOp(self, e, f):
        v = self.ev(e.operand, f)
        if isinstance(e.op, ast.Not):
            return not self.truth(v)
        if isinstance(e.op, ast.USub):
            if isinstance(v, SymInt):
                return SymInt(-v.t)
            return -v
        raise EngineLimit('unary op')

    def binop(self, op, a, b, inplace=False):
        if isinstance(op, (ast.Add, ast.Sub)):
            if isinstance(a, (SymInt, SymBool)) or isinstance(b, (SymInt, SymBool)):
                if isinstance(a, (SymInt, SymBool, int)) and isinstance(b, (SymInt, SymBool, int)):
                    return SymInt(zint(a) + zint(b) if isinstance(op, ast.Add) else zint(a) - zint(b))
                raise PyExc(TypeError, ('unsupported operand types',))
            if isinstance(op, ast.Add):
                if isinstance(a, (str, Opaque)) and isinstance(b, (str, Opaque)):
                    if isinstance(a, str) and isinstance(b, str):
                        return a + b
                    return Opaque()
                if isinstance(a, list) and isinstance(b, list):
                    if inplace:
                        a.extend(b)
                        return a
                    return TList(list(a) + list(b))
                if isinstance(a, tuple) and isinstance(b, tuple):
                    return tuple(a) + tuple(b)
                if isinstance(a, (int, float)) and isinstance(b, (int, float)):
                    return a + b
                raise PyExc(TypeError, ('unsupported operand type(s) for +: %r and %r' % (type(a).__name__, type(b).__name__),))
            if isinstance(a, (int, float)) and isinstance(b, (int, float)):
                return a - b
            if isinstance(a, SymSet):
                return a.difference(b)
            raise PyExc(TypeError, ('unsupported operand type(s) for -',))
        if isinstance(op, ast.BitOr):
            if isinstance(a, SymSet) and isinstance(b, SymSet):
                if inplace:
                    a.update(b)
                    return a
                return a.union(b)
            if isinstance(a, int) and isinstance(b, int):
                return a | b
        if isinstance(op, ast.BitAnd):
            if isinstance(a, SymSet) and isinstance(b, SymSet):
                return a.intersection(b)
            if isinstance(a, int) and isinstance(b, int):
                return a & b
            if hasattr(a, '_vf_and'):
                return a._vf_and(b)
        if isinstance(op, ast.Mod) and isinstance(a, (str, Opaque)):
            return Opaque()
        if isinstance(op, ast.Mult) and isinstance(a, (int,)) and isinstance(b, int):
            return a * b
        raise EngineLimit('binary op %s on %s,%s' % (type(op).__name__, type(a).__name__, type(b).__name__))

    def ev_BinOp(self, e, f):
        return self.binop(e.op, self.ev(e.left, f), self.ev(e.right, f))

    def compare(self, op, left, right):
        if isinstance(op, ast.Eq):
            return py_eq(left, right)
        if isinstance(op, ast.NotEq):
            return not py_eq(left, right)
        if isinstance(op, ast.Is):
            return py_is(left, right)
        if isinstance(op, ast.IsNot):
            return not py_is(left, right)
        if isinstance(op, (ast.In, ast.NotIn)):
            r = self.contains(right, left)
            return r if isinstance(op, ast.In) else not r
        if isinstance(op, (ast.Lt, ast.LtE, ast.Gt, ast.GtE)):
            if isinstance(left, (SymInt, SymBool)) or isinstance(right, (SymInt, SymBool)):
                a, b = zint(left), zint(right)
                c = {ast.Lt: a < b, ast.LtE: a <= b, ast.Gt: a > b, ast.GtE: a >= b}[type(op)]
                return sym.CTX().decide(c)
            try:
                return {ast.Lt: lambda: left < right, ast.LtE: lambda: left <= right,
                        ast.Gt: lambda: left > right, ast.GtE: lambda: left >= right}[type(op)]()
            except TypeError as ex:
                raise PyExc(TypeError, ex.args)
        raise EngineLimit('comparison %s' % type(op).__name__)

    def contains(self, container, x):
        if isinstance(container, (list, tuple)):
            return any(py_eq(x, y) for y in container)
        if isinstance(container, (SymDict, SymSet, Inst)) or getattr(container, '_vf_container', False):
            return x in container
        if hasattr(container, '_vf_contains'):
            return container._vf_contains(self, x)
        if isinstance(container, (str,)) and isinstance(x, str):
            return x in container
        if isinstance(container, dict):
            return any(py_eq(x, y) for y in container)
        raise EngineLimit('membership test on %r' % type(container).__name__)

    def ev_Compare(self, e, f):
        left = self.ev(e.left, f)
        for op, r in zip(e.ops, e.comparators):
            right = self.ev(r, f)
            if not self.compare(op, left, right):
                return False
            left = right
        return True

    def ev_Subscript(self, e, f):
        o = self.ev(e.value, f)
        if isinstance(e.slice, ast.Slice):
            lo = self.ev(e.slice.lower, f) if e.slice.lower else None
            hi = self.ev(e.slice.upper, f) if e.slice.upper else None
            st = self.ev(e.slice.step, f) if e.slice.step else None
            if hasattr(o, '_vf_slice'):
                return o._vf_slice(self, lo, hi, st)
            if isinstance(lo, SymInt) or isinstance(hi, SymInt):
                if st is not None or not isinstance(o, (list, tuple)):
                    raise EngineLimit('symbolic slice bound')
                # a symbolic bound over a sequence of concrete length: decided by case split (Python clamps it)
                lo = self._concrete_bound(lo, len(o))
                hi = self._concrete_bound(hi, len(o))
            if isinstance(o, list):
                return TList(o[lo:hi:st])
            if isinstance(o, (tuple, str)):
                return o[lo:hi:st]
            raise EngineLimit('slice of %r' % type(o).__name__)
        return self.getitem(o, self.ev(e.slice, f))

    def _concrete_bound(self, b, n):
        """a slice bound as a concrete int in [0, n] (or None): forks over the possible positions of a symbolic one"""
        if not isinstance(b, SymInt):
            return b
        import z3 as _z3
        c = sym.CTX()
        for k in range(n):
            if c.decide(b.t <= k if k == 0 else b.t == k):
                return k
        return n

    def ev_IfExp(self, e, f):
        return self.ev(e.body, f) if self.truth(self.ev(e.test, f)) else self.ev(e.orelse, f)

    def ev_Lambda(self, e, f):
        return self.make_function(e, f)

    def ev_Starred(self, e, f):
        raise EngineLimit('starred expression')

    def ev_Call(self, e, f):
        if isinstance(e.func, ast.Name) and e.func.id == 'super' and not e.args:
            fr = f
            while fr is not None and (fr.fn is None or fr.fn.owner_cls is None):
                fr = fr.parent
            if fr is None:
                raise EngineLimit('zero-argument super outside a method')
            return SuperProxy(fr.fn.owner_cls, fr.first_arg)
        fn = self.ev(e.func, f)
        args = []
        for a in e.args:
            if isinstance(a, ast.Starred):
                args.extend(self.iter_(self.ev(a.value, f)))
            else:
                args.append(self.ev(a, f))
        kw = []
        for k in e.keywords:
            if k.arg is None:
                d = self.ev(k.value, f)
                if isinstance(d, SymDict):
                    kw.extend(d.items_)
                elif isinstance(d, dict):
                    kw.extend(d.items())
                elif hasattr(d, '_vf_kwpairs'):
                    kw.extend(d._vf_kwpairs(self))
                else:
                    raise EngineLimit('** of %r' % type(d).__name__)
            else:
                kw.append((k.arg, self.ev(k.value, f)))
        return self.call(fn, args, kw)

    def iter_(self, v):
        if isinstance(v, (list, tuple, SymDict, SymSet, Inst, str, range, dict)):
            return iter(v)
        if hasattr(v, '_vf_iter'):
            return v._vf_iter(self)
        if hasattr(v, '__next__'):
            return v
        if v is None or isinstance(v, (int, bool, SymInt, SymBool, SymVal, SymRef, MV, Closure, IClass)):
            raise PyExc(TypeError, ('%r object is not iterable' % type(v).__name__,))
        if isinstance(v, ast.AST):
            raise PyExc(TypeError, ('%r object is not iterable' % type(v).__name__,))
        try:
            return iter(v)
        except TypeError as ex:
            raise PyExc(TypeError, ex.args)

    def comp(self, f, gens, i, emit):
        if i == len(gens):
            yield emit(f)
            return
        g = gens[i]
        for x in self.iter_(self.ev(g.iter, f)):
            self.assign(g.target, x, f)
            ok = True
            for c in g.ifs:
                if not self.truth(self.ev(c, f)):
                    ok = False
                    break
            if ok:
                yield from self.comp(f, gens, i + 1, emit)

    def _comp_frame(self, f):
        fr = Frame(f, f.module)
        return fr

    def ev_GeneratorExp(self, e, f):
        fr = self._comp_frame(f)
        return self.comp(fr, e.generators, 0, lambda fr: self.ev(e.elt, fr))

    def ev_ListComp(self, e, f):
        return TList(self.ev_GeneratorExp(e, f))

    def ev_SetComp(self, e, f):
        return SymSet(self.ev_GeneratorExp(e, f))

    def ev_DictComp(self, e, f):
        fr = self._comp_frame(f)
        d = SymDict()
        for k, v in self.comp(fr, e.generators, 0, lambda fr: (self.ev(e.key, fr), self.ev(e.value, fr))):
            d[k] = v
        return d

    # ------------------------------------------------------------------ abstract loops (tier P)
    def abstract_for(self, s, itv, frame):
        handler = getattr(self, 'abstract_loop_handler', None)
        if handler is None:
            raise EngineLimit('loop over an abstract iterable without invariant')
        yield from handler(self, s, itv, frame)


class _NativeBound:
    def __init__(self, f, obj):
        self.f = f
        self.obj = obj
        self.__name__ = getattr(f, '__name__', '?')

    def __call__(self, *a, **k):
        return self.f(self.obj, *a, **k)

    def __bool__(self):
        return True


class _DictView:
    """obj.__dict__ of an interpreted instance"""

    def __init__(self, inst):
        self.inst = inst

    def update(self, other):
        if isinstance(other, _DictView):
            other = other.inst._d
        if isinstance(other, SymDict):
            other = dict((k, v) for k, v in other.items_)
        self.inst._d.update(other)

    def items(self):
        return list(self.inst._d.items())

    def __contains__(self, k):
        return k in self.inst._d

    def __getitem__(self, k):
        try:
            return self.inst._d[k]
        except KeyError:
            raise PyExc(KeyError, (k,))

    def __iter__(self):
        return iter(list(self.inst._d))


def _merge_kw(a, b):
    out = list(a)
    for k, v in b:
        for i, (k2, _) in enumerate(out):
            if py_eq(k, k2):
                out[i] = (k2, v)
                break
        else:
            out.append((k, v))
    return out


def _list_index(o, x):
    # CPython: per element, identity first, then ==
    for i, y in enumerate(o):
        if y is x or py_eq(y, x):
            return i
    raise PyExc(ValueError, ('x not in list',))


def _list_remove(o, x):
    i = _list_index(o, x)
    sym.note_write(o)
    list.__delitem__(o, i)
