"""Symbolic external OBJECTS for the retrieval units (C16 restore-on-every-exit, C07 totality, C04 forger glue).

DESIGN Appendix C.  A ``SymObj`` stands for an arbitrary object handed to sigtools.signature: for every attribute
name the units under contract touch it has

  inst  : Bool   the name is in the instance dict                (delattr succeeds iff inst)
  cls   : Bool   the name is visible through the type            (class attribute / non-data descriptor)
  values for both, and - for class-level reads - the possibility that user code (a descriptor, a property)
  raises any Exception other than AttributeError.

getattr: instance dict first, then the type, else AttributeError.  delattr: removes from the instance dict, else
AttributeError (data descriptors with __delete__ are outside the model: assumption DESCR).  setattr: stores into
the instance dict, never raises (assumption SETATTR: an object whose attribute could be deleted accepts it back).

External calls (inspect.signature, inspect.getsource, ast.parse, user forgers, descriptors) may RAISE: the exception
is a ``PyExc`` whose class is a solver variable over a finite universe of representative classes (every class
some ``except`` clause of the units mentions, plus one unrelated Exception class); ``except`` clauses fork on it.
Each such exception carries its ORIGIN (which external call raised it) as ghost data for the raises-clauses.
"""
import z3

from . import sym
from .sym import SymRef, SymBool, PyExc, EngineLimit, RefS, CTX, Opaque


# --------------------------------------------------------------------------- symbolic exception classes
class OtherError(Exception):
    """stands for every Exception class that no except clause of sigtools mentions"""


class SymExcType:
    """class of an exception raised outside sigtools: index ``term`` into ``universe``"""
    _vf_symbolic_exc = True

    def __init__(self, term, universe, origin):
        self.term = term
        self.universe = universe
        self.origin = origin
        self.__name__ = 'external:%s' % origin

    def matches(self, interp, h):
        idx = [i for i, c in enumerate(self.universe) if interp.exc_matches(c, h)]
        if not idx:
            return False
        if len(idx) == len(self.universe):
            return True
        return CTX().decide(z3.Or(*[self.term == i for i in idx]))

    def is_class(self, interp, name):
        """z3 condition: the class is (a subclass of) the class called ``name``"""
        idx = [i for i, c in enumerate(self.universe) if any(getattr(k, '__name__', getattr(k, 'name', None)) == name
                                                            for k in (c.mro if hasattr(c, 'mro') and not isinstance(c, type) else c.__mro__))]
        return z3.Or(*[self.term == i for i in idx]) if idx else z3.BoolVal(False)

    def __repr__(self):
        return '<exception from %s>' % self.origin


def exc_universe(interp):
    """host classes + the exception classes sigtools defines (read from the real source)"""
    u = [AttributeError, KeyError, ValueError, TypeError, OSError, NotImplementedError, SyntaxError, IndexError,
         NameError, OtherError]
    for mod, names in (('sigtools._signatures', ['IncompatibleSignatures']),
                       ('sigtools._autoforwards', ['UnknownForwards', 'UnresolvableName'])):
        try:
            m = interp.module(mod)
        except Exception:
            continue
        for n in names:
            c = m.ns.get(n)
            if c is not None:
                u.append(c)
    return u


def class_name(c):
    return getattr(c, '__name__', None) or getattr(c, 'name', str(c))


def may_raise(interp, origin, allowed=None, never=()):
    """nondeterministically raise an external exception at this point. ``allowed``: class names the assumed contract
    of the external call restricts it to (None = any Exception); ``never``: class names excluded."""
    ctx = CTX()
    if ctx.notes.get('post_path'):
        return          # contract clauses evaluated after the path has ended do not inject faults
    flag = ctx.fresh('raises_%s' % origin, z3.BoolSort())
    if not ctx.decide(flag):
        return
    uni = getattr(interp, '_vf_exc_universe', None)
    if uni is None:
        uni = interp._vf_exc_universe = exc_universe(interp)
    term = ctx.fresh('exc_%s' % origin, z3.IntSort())
    ok = [i for i, c in enumerate(uni) if (allowed is None or class_name(c) in allowed) and class_name(c) not in never]
    ctx.add(z3.Or(*[term == i for i in ok]))
    e = PyExc(SymExcType(term, uni, origin), ('raised by %s' % origin,))
    e.origin = origin
    ctx.log('external-raise', origin, e)
    raise e


# --------------------------------------------------------------------------- symbolic objects
CURRENT_INTERP = [None]      # the interpreter of the running task (for callbacks that have no interpreter argument)


class Slot:
    __slots__ = ('inst', 'cls', 'v_inst', 'v_cls', 'cls_may_raise')

    def __init__(self, inst, cls, v_inst, v_cls, cls_may_raise=True):
        self.inst, self.cls, self.v_inst, self.v_cls, self.cls_may_raise = inst, cls, v_inst, v_cls, cls_may_raise


def _dec(x):
    return x if isinstance(x, bool) else CTX().decide(x)


class SymObj(SymRef):
    """an arbitrary user object; ``kind`` in 'function', 'instance' (callable instance), 'method', 'builtin'"""
    __slots__ = ('kind', 'slots', 'defaults', 'postponed', 'entry', 'truthy', 'descriptors', 'frozen')

    def __init__(self, name, kind='function', slots=None, defaults=None):
        SymRef.__init__(self, z3.Const(name, RefS), label=name)
        self.kind = kind
        self.slots = dict(slots or {})
        self.defaults = dict(defaults or {})      # attributes every object of this kind has (concrete presence)
        self.postponed = z3.Bool('postponed_%s' % name)
        self.entry = None
        self.truthy = None      # None: an object without __bool__/__len__ (always true); else a Bool term
        # name -> (cond, product): when the object is a CLASS, what its own namespace stores under ``name`` may be a
        # descriptor - attribute lookup then yields what the descriptor computes (``product``), not the stored object
        self.descriptors = {}
        # None, or a Bool term: the object refuses every attribute assignment and deletion with an AttributeError (a frozen
        # dataclass instance, a class with a forbidding __setattr__ / __delattr__): both, or neither
        self.frozen = None

    def __bool__(self):
        if self.truthy is None:
            return True
        # __bool__ / __len__ of a user class: arbitrary code (numpy-like objects raise here)
        if CURRENT_INTERP[0] is not None:
            may_raise(CURRENT_INTERP[0], 'bool(%s)' % self.label)
        return _dec(self.truthy)

    # ---- ghost: attribute state at entry, for the frame clause instance_dict(o) == attrs0(o)
    def snapshot(self):
        self.entry = {k: (s.inst, s.v_inst) for k, s in self.slots.items()}

    def frame_goal(self):
        """z3 condition 'the instance dict is what it was at entry' + description of what differs"""
        goals = []
        for k in set(self.slots) | set(self.entry or {}):
            s = self.slots.get(k)
            i0, v0 = (self.entry or {}).get(k, (False, None))
            i1, v1 = (s.inst, s.v_inst) if s is not None else (False, None)
            t0 = z3.BoolVal(i0) if isinstance(i0, bool) else i0
            t1 = z3.BoolVal(i1) if isinstance(i1, bool) else i1
            goals.append(t0 == t1)
            if v0 is not v1:
                goals.append(z3.Not(z3.And(t0, t1)))
        return z3.And(*goals) if goals else z3.BoolVal(True)

    # ---- attribute protocol
    def _vf_getattr(self, interp, name):
        s = self.slots.get(name)
        if s is None:
            if name in self.defaults:
                return self.defaults[name]
            if name == '__code__' and self.kind in ('function', 'method'):
                from .world import SymCode
                return SymCode(self)
            if name in ('__name__', '__qualname__', '__module__', '__doc__'):
                return Opaque(name)
            if name == '__globals__' and self.kind in ('function', 'method'):
                from .world import Globals
                return Globals(self)
            raise PyExc(AttributeError, ('%s object has no attribute %r' % (self.kind, name),))
        if _dec(s.inst):
            d = self.descriptors.get(name)
            if d is not None and _dec(d[0]):
                may_raise(interp, 'getattr:%s.%s' % (self.label, name), never=('AttributeError',))     # __get__ runs user code
                return d[1]
            return s.v_inst
        if _dec(s.cls):
            if s.cls_may_raise:
                # a descriptor / property on the type runs user code; AttributeError there means 'absent'
                may_raise(interp, 'getattr:%s.%s' % (self.label, name), never=('AttributeError',))
            return s.v_cls
        raise PyExc(AttributeError, ('%s object has no attribute %r' % (self.kind, name),))

    def _vf_setattr(self, interp, name, v):
        if self.frozen is not None and _dec(self.frozen):
            raise PyExc(AttributeError, ('cannot assign to field %r' % name,))
        sym.note_write(self)
        s = self.slots.get(name)
        if s is None:
            self.slots[name] = Slot(True, False, v, None)
        else:
            s.inst, s.v_inst = True, v

    def _vf_delattr(self, interp, name):
        s = self.slots.get(name)
        if s is not None and _dec(s.inst):
            if self.frozen is not None and _dec(self.frozen):
                raise PyExc(AttributeError, ('cannot delete field %r' % name,))
            sym.note_write(self)
            s.inst = False
            return
        raise PyExc(AttributeError, (name,))

    def _vf_vars(self, interp):
        """vars(obj) / obj.__dict__: the object's own namespace, raw (no descriptor is run)"""
        return OwnNamespace(self)

    def _vf_dict_items(self, interp):
        """the instance dict, as functools.update_wrapper copies it"""
        return [(k, s.v_inst) for k, s in self.slots.items() if _dec(s.inst)]

    def _vf_isinstance(self, interp, c):
        from . import interp as I
        if c is I.BoundMethod:
            return self.kind == 'method'
        if hasattr(c, '_vf_isinstance_of'):
            return c._vf_isinstance_of(self)
        return False

    def _vf_callable(self, interp):
        return True

    def _vf_type(self, interp):
        from .models import PlainTypeModel
        return PlainTypeModel(self.kind)


class OwnNamespace:
    """read-only view of a symbolic object's own namespace"""

    def __init__(self, obj):
        self.obj = obj

    def _vf_getitem(self, interp, key):
        s = self.obj.slots.get(key) if isinstance(key, str) else None
        if s is not None and _dec(s.inst):
            return s.v_inst
        raise PyExc(KeyError, (key,))

    def __getitem__(self, key):
        return self._vf_getitem(None, key)

    def __contains__(self, key):
        s = self.obj.slots.get(key) if isinstance(key, str) else None
        return s is not None and _dec(s.inst)

    def get(self, key, default=None):
        try:
            return self[key]
        except PyExc:
            return default


class MethodWrapper:
    """``obj.__call__`` of a function / builtin: has no __code__"""

    def _vf_getattr(self, interp, name):
        raise PyExc(AttributeError, ("'method-wrapper' object has no attribute %r" % name,))


class SymCallable:
    """a user-supplied callable (forger, hint): ``behaviour(interp, args, kwpairs)`` decides what it returns; it may
    raise any Exception first"""

    def __init__(self, origin, behaviour, allowed=None):
        self.origin = origin
        self.behaviour = behaviour
        self.allowed = allowed
        self.calls = []

    def _vf_call(self, interp, args, kwpairs):
        self.calls.append((list(args), list(kwpairs)))
        CTX().log('external-call', self.origin)
        may_raise(interp, self.origin, allowed=self.allowed)
        return self.behaviour(interp, args, kwpairs)

    def _vf_getattr(self, interp, name):
        raise PyExc(AttributeError, (name,))

    def __bool__(self):
        return True
