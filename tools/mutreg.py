#!/usr/bin/env python3
"""tools/mutreg.py [seed-id ...]  - mutation regression: runs the quick check of each seeded change's property against a scratch copy
of /repo with the change applied (tools/muttest.sh) and records, in seeded/<id>/meta.json under "checks", the exit code and the
obligations that failed.  Prints one line per change; exit 1 if a change is not detected (exit code 0 of the check)."""
import json, os, shutil, subprocess, sys, time
ROOT = os.path.dirname(os.path.dirname(os.path.abspath(__file__)))
ids = sys.argv[1:] or sorted(os.listdir(os.path.join(ROOT, 'seeded')))
missed = []
for sid in ids:
    d = os.path.join(ROOT, 'seeded', sid)
    mp = os.path.join(d, 'meta.json')
    if not os.path.exists(mp):
        continue
    meta = json.load(open(mp))
    if meta.get('obsolete'):
        print('%-62s obsolete: skipped' % sid, flush=True)
        continue
    prop = meta['property']
    keep = '/root/scratch/mutreg.%d' % os.getpid()
    shutil.rmtree(keep, ignore_errors=True)
    t0 = time.time()
    r = subprocess.run(['sh', os.path.join(ROOT, 'tools', 'muttest.sh'), os.path.join(d, 'patch.diff'), 'quick', prop],
                       env=dict(os.environ, MUT_KEEP=keep, MUT_LINES='1'), capture_output=True, text=True)
    out = r.stdout
    rc = None
    for line in out.splitlines():
        if line.startswith('[%s exit=' % prop):
            rc = int(line.split('=')[1].rstrip(']'))
    obl, native = [], 0
    ev = os.path.join(keep, 'evidence', prop + '.json')
    if os.path.exists(ev):
        e = json.load(open(ev))
        base = {}
        bp = os.path.join(ROOT, 'evidence', prop + '.json')
        if os.path.exists(bp):        # failures of the unchanged tree (known findings) are not what catches the change
            base = {k: v['obligations'] - v['discharged'] for k, v in json.load(open(bp)).get('coverage', {}).get('by_clause', {}).items()}
        for k, v in e.get('coverage', {}).get('by_clause', {}).items():
            if v['obligations'] - v['discharged'] > base.get(k, 0):
                obl.append(k)
    shutil.rmtree(keep, ignore_errors=True)
    meta['checks'] = dict(command='tools/muttest.sh seeded/%s/patch.diff quick %s' % (sid, prop), exit=rc, failed_obligations=obl[:12],
                          verdict={0: 'NOT DETECTED', 1: 'violation reported', 2: 'undecided (engine limit)', 3: 'checker error'}.get(rc, 'patch does not apply' if rc is None else str(rc)),
                          wall_s=round(time.time() - t0, 1))
    json.dump(meta, open(mp, 'w'), indent=1)
    print('%-62s %s exit=%s %5.0fs %s' % (sid, prop, rc, time.time() - t0, ', '.join(obl[:3])), flush=True)
    if rc != 1:
        missed.append(sid)
print('not detected / undecided:', missed)
sys.exit(1 if missed else 0)
