"""Contracts of the upgraded inspect classes (C14: returned signatures are drop-in inspect.Signature objects).

 _signatures.UpgradedParameter.__eq__ / UpgradedSignature.__eq__      (``other`` ranges over: the object itself, an
        upgraded object with symbolic data, a plain inspect object carrying the same data, a plain inspect object
        with symbolic data, None, an arbitrary foreign object)
   raises:nothing            comparing with ANY object returns without raising
   post:bool_or_notimplemented   the result is True, False or NotImplemented (so == / != give a bool)
   post:reflexive            x == x
   post:equals_plain_twin    equal to the plain inspect object carrying the same data (this is also the symmetric
                             direction: for plain == upgraded CPython calls the subclass's reflected __eq__ first)
   post:eq_implies_basis     True only if the inspect hash basis is equal  (=> consistent with the inherited hash)
   post:basis_and_ua_decide  for two upgraded objects: equal iff basis equal and the upgraded (return) annotations denote
                             equal objects
 class obligations (Python data model, read off the class as extracted from the real source)
   class:hashable            __hash__ is the inherited basis hash (a class defining __eq__ without __hash__ is unhashable)
   class:inherits_str_bind   __str__, __repr__ excluded, bind, bind_partial, _bind are not overridden
 _signatures.UpgradedParameter.replace / UpgradedSignature.replace
   post:replace_keeps        result has the upgraded type; function / sources / source_depths / upgraded annotations are
                             kept unless overridden; the inspect part equals the plain replace()
 _signatures.UpgradedSignature.__init__
   post:inherited_state      parameters and return annotation stored exactly as a plain Signature built from the same
                             arguments would store them (so the inherited str/bind/bind_partial behave identically)

 _signatures.UpgradedSignature.evaluated          (unit 'sig_evaluated': a COMBINED signature - its parameters come from two
        defining functions with their own globals / future flags, the raw annotations may coincide)
   post:denoted_objects      C11  every parameter's annotation (and the return annotation) of the result is the object the
                             upgraded annotation denotes in the globals of ITS defining function; unannotated stays unannotated;
                             names, kinds, defaults unchanged

Parameter-level obligations are tier P (loop-free code, every field symbolic, all five kinds enumerated);
signature-level ones iterate over the parameter list inside the trusted inspect model: shapes enumerated (tier B)."""
import z3

from vf import sym, world
from vf.sym import MV, SymName, SymRef, SymVal, SymDict, NONEVAL, PyExc, EngineLimit, Opaque, RefS, ValS, EMPTY
from vf.spec import PO, POK, VP, KWO, VK
from vf.interp import Interp, Inst, IClass
from vf.harness import VC, mk_sig, run_unit
from .common import clause, ua_denotes
from .concile import KIND_SHAPE

UPE = '_signatures.UpgradedParameter.__eq__'
USE = '_signatures.UpgradedSignature.__eq__'
UPR = '_signatures.UpgradedParameter.replace'
USR = '_signatures.UpgradedSignature.replace'
USI = '_signatures.UpgradedSignature.__init__'
UCL = '_signatures.upgraded_classes'


def _eq_clauses(u, tier):
    return dict(raises=clause(u, 'raises:nothing', ['C14'], tier), boolish=clause(u, 'post:bool_or_notimplemented', ['C14'], tier),
                refl=clause(u, 'post:reflexive', ['C14'], tier), twin=clause(u, 'post:equals_plain_twin', ['C14'], tier),
                basis=clause(u, 'post:eq_implies_basis', ['C14'], tier), iff=clause(u, 'post:basis_and_ua_decide', ['C14'], tier))


PE = _eq_clauses(UPE, 'P')
SE = _eq_clauses(USE, 'B')
C_HASH = clause(UCL, 'class:hashable', ['C14'], 'P')
C_INH = clause(UCL, 'class:inherits_str_bind', ['C14'], 'P')
C_PREP = clause(UPR, 'post:replace_keeps', ['C14', 'C11'], 'P')
C_SREP = clause(USR, 'post:replace_keeps', ['C14', 'C11'], 'B')
C_INIT = clause(USI, 'post:inherited_state', ['C14'], 'B')

C_PLAIN = clause('_signatures.UpgradedSignature.__init__', 'post:plain_parameters_upgraded', ['C14'], 'B',
                 'plain inspect.Parameter objects handed to the constructor or to replace(parameters=...) come out as upgraded parameters '
                 'carrying the same data - every one of them, so that whatever sigtools returns answers replace() with the upgraded type; '
                 'the parameters may arrive as any iterable, a one-shot generator included (as for inspect.Signature)')
C_NOW = clause('_signatures.UpgradedAnnotation.source_value', 'post:evaluated_when_asked', ['C11'], 'P',
               'a postponed annotation denotes what its expression evaluates to in the globals of its function AT THE TIME source_value() is '
               'called (module globals are mutable: a placeholder replaced later, a configuration switch) - asked twice, evaluated twice')
C_EVAL = clause('_signatures.UpgradedSignature.evaluated', 'post:denoted_objects', ['C11', 'C14'], 'B')

OTHERS = ('self', 'upgraded', 'plain_same', 'plain_sym', 'none', 'foreign')


def _param_basis_eq(p, q):
    a, b = p._d, q._d
    mv = lambda x, y: z3.Or(z3.And(z3.Not(x.has), z3.Not(y.has)), z3.And(x.has, y.has, x.val == y.val))
    n = a['_name'].t == b['_name'].t if isinstance(a['_name'], SymName) and isinstance(b['_name'], SymName) else z3.BoolVal(a['_name'] is b['_name'])
    return z3.And(n, z3.BoolVal(a['_kind'] == b['_kind']), mv(a['_default'], b['_default']), mv(a['_annotation'], b['_annotation']))


def _sig_basis_eq(s, t):
    ps, pt = s._d['_parameters'].plist, t._d['_parameters'].plist
    if len(ps) != len(pt) or [p.kind for p in ps] != [p.kind for p in pt]:
        return z3.BoolVal(False)
    pos = [(p, q) for p, q in zip(ps, pt) if p.kind != KWO]
    ks, kt = [p for p in ps if p.kind == KWO], [p for p in pt if p.kind == KWO]
    conj = [_param_basis_eq(p, q) for p, q in pos]
    # keyword-only parameters are compared as a mapping by name
    for p in ks:
        conj.append(z3.Or(*[_param_basis_eq(p, q) for q in kt]) if kt else z3.BoolVal(False))
    a, b = s._d['_return_annotation'], t._d['_return_annotation']
    conj.append(z3.Or(z3.And(z3.Not(a.has), z3.Not(b.has)), z3.And(a.has, b.has, a.val == b.val)))
    return z3.And(*conj)


def _ua_eq(I, x, y):
    m = I.module('sigtools._signatures')
    E = m.ns['EmptyAnnotation']
    h1, d1 = ua_denotes(x, E)
    h2, d2 = ua_denotes(y, E)
    # UpgradedAnnotation.__eq__: source_value() == source_value(); the empty annotation's source value is `empty`
    return z3.Or(z3.And(z3.Not(h1), z3.Not(h2)), z3.And(h1, h2, d1 == d2))


def make_runner(unit, kind=None, shape=None, other='self', want=None):
    I = Interp()
    world.install_externals(I, {})
    m = I.module('sigtools._signatures')
    env = {'interp': I, 'unit': unit, 'other': other}
    UP, US = m.ns['UpgradedParameter'], m.ns['UpgradedSignature']

    def mk_other(ctx, info, level):
        """(object compared against, second SigInfo or None)"""
        if other == 'self':
            return (info.params[0] if level == 'param' else info.sig), None
        if other == 'none':
            return None, None
        if other == 'foreign':
            return SymRef(z3.Const('foreign_obj', RefS), 'foreign'), None
        if other == 'plain_same':
            ps = world.plain_signature(I, info)
            return (ps._d['_parameters'].plist[0] if level == 'param' else ps), None
        info2 = mk_sig(I, ctx, 't', info.shape, tracked=False)
        if other == 'upgraded':
            return (info2.params[0] if level == 'param' else info2.sig), info2
        ps = world.plain_signature(I, info2)
        return (ps._d['_parameters'].plist[0] if level == 'param' else ps), info2

    def run(ctx, r):
        # in the reflexivity units ``==`` on defaults / annotation objects is NOT assumed reflexive (NaN-like values):
        # plain inspect objects are equal to themselves regardless, through the identity shortcut of their __eq__
        sym.set_nonreflexive(other == 'self' and unit in ('param_eq', 'sig_eq'))
        try:
            return run_(ctx, r)
        finally:
            sym.set_nonreflexive(False)

    def run_(ctx, r):
        env['r'] = r
        if unit == 'class':
            env['UP'], env['US'] = UP, US
            r.outcome, r.value = 'return', None
            return
        if unit in ('param_eq', 'param_replace'):
            info = mk_sig(I, ctx, 's', KIND_SHAPE[kind], tracked=False)
            p = info.params[0]
            env['info'] = info
            if unit == 'param_eq':
                o, info2 = mk_other(ctx, info, 'param')
                env['o'], env['info2'] = o, info2
                found, fn, _ = UP.lookup('__eq__')
                run_unit(I, fn if found else I.getattr_(p, '__eq__'), [p, o] if found else [o], [], r)
            else:
                nv = SymVal(z3.Const('new_default', ValS))
                env['new_default'] = nv
                over = other == 'override'
                kw = [('annotation', nv)]      # (a default is not admissible on star parameters)
                if over:
                    env['new_fn'] = SymRef(z3.Const('new_fn', RefS), 'new_fn')
                    env['new_src'] = sym.TList([])
                    kw += [('function', env['new_fn']), ('sources', env['new_src'])]
                run_unit(I, I.getattr_(p, 'replace'), [], kw, r)
        else:
            info = mk_sig(I, ctx, 's', shape, tracked=False)
            env['info'] = info
            if unit == 'sig_eq':
                o, info2 = mk_other(ctx, info, 'sig')
                env['o'], env['info2'] = o, info2
                found, fn, _ = US.lookup('__eq__')
                run_unit(I, fn if found else I.getattr_(info.sig, '__eq__'), [info.sig, o] if found else [o], [], r)
            elif unit == 'sig_replace':
                over = other == 'override'
                kw = []
                if over:
                    env['new_src'] = SymDict()
                    kw += [('sources', env['new_src'])]
                run_unit(I, I.getattr_(info.sig, 'replace'), [], kw, r)
            elif unit == 'sig_init':
                ra = info.sig._d['_return_annotation']
                src = SymDict()
                env['src'] = src
                try:
                    r.value = I.instantiate(US, [list(info.params)], [('return_annotation', ra), ('sources', src),
                                                                     ('upgraded_return_annotation', info.sig._d['upgraded_return_annotation'])])
                    r.outcome = 'return'
                except PyExc as e:
                    r.outcome, r.exc = 'raise', e
            elif unit == 'ua_twice':
                UAcls = m.ns['UpgradedAnnotation']
                raw = SymVal(z3.Const('raw_annotation', ValS))
                fn = info.funcs[0]
                env['raw'], env['fn'] = raw, fn
                sym.EPOCH[0] = 0
                try:
                    ua = I.call(I.getattr_(UAcls, 'upgrade'), [raw, fn, 'a'], [])
                    v1 = I.call(I.getattr_(ua, 'source_value'), [], [])
                    sym.EPOCH[0] = 1          # the module rebinds its globals
                    v2 = I.call(I.getattr_(ua, 'source_value'), [], [])
                    env['vals'] = (v1, v2)
                    r.outcome, r.value = 'return', ua
                except PyExc as e:
                    r.outcome, r.exc = 'raise', e
                finally:
                    sym.EPOCH[0] = 0
            elif unit in ('sig_init_plain', 'sig_replace_plain', 'sig_init_iter', 'sig_replace_iter', 'sig_init_plain_iter'):
                # the deprecated-but-supported route: plain inspect.Parameter objects handed to the constructor / to replace;
                # ..._iter: the parameters arrive as a ONE-SHOT iterable (a generator), which inspect.Signature accepts
                plain = list(world.plain_signature(I, info)._d['_parameters'].plist) if 'plain' in unit else list(info.params)
                env['plain'] = plain
                given = iter(list(plain)) if unit.endswith('_iter') else plain
                try:
                    if unit.startswith('sig_init'):
                        r.value = I.instantiate(US, [given], [('return_annotation', info.sig._d['_return_annotation'])])
                    else:
                        r.value = I.call(I.getattr_(info.sig, 'replace'), [], [('parameters', given)])
                    r.outcome = 'return'
                except PyExc as e:
                    r.outcome, r.exc = 'raise', e
            elif unit == 'sig_evaluated':
                # second contributor: another defining function; the combined signature is what merge / embed return
                info2 = mk_sig(I, ctx, 't', (0, 0, 0, 1, 0), tracked=False)
                ctx.add(info2.funcs[0].t != info.funcs[0].t)
                ctx.add(z3.And(*[info2.names[0] != n for n in info.names]))
                plist = [p for p in info.params if p.kind != VK] + list(info2.params) + [p for p in info.params if p.kind == VK]
                comb = I.instantiate(US, [plist], [('return_annotation', info.sig._d['_return_annotation']), ('sources', SymDict()),
                                                   ('upgraded_return_annotation', info.sig._d['upgraded_return_annotation'])])
                env['comb'], env['plist'], env['info2'] = comb, plist, info2
                run_unit(I, I.getattr_(comb, 'evaluated'), [], [], r)
            else:
                raise EngineLimit('unit %s' % unit)
    return run, env


def vcs(env, want):
    r, I, unit, other = env['r'], env['interp'], env['unit'], env['other']
    out = []

    def on(c):
        return want is None or any(p in want for p in c.props)
    if unit == 'class':
        UP, US = env['UP'], env['US']
        from vf.models import NParameter, NSignature
        for cls, base in ((UP, NParameter), (US, NSignature)):
            if on(C_HASH):
                found, h, owner = cls.lookup('__hash__')
                # Python: a class body that defines __eq__ and not __hash__ gets __hash__ = None
                defines_eq = '__eq__' in cls.ns
                ok = found and h is not None and ((not defines_eq) or '__hash__' in cls.ns) and (owner is base or (isinstance(owner, IClass) and h is base.__dict__.get('__hash__')))
                out.append(VC(C_HASH.full + ':' + cls.name, [], z3.BoolVal(bool(ok)), C_HASH.props))
            if on(C_INH):
                bad = [n for n in ('__str__', 'bind', 'bind_partial', '_bind', '__format__') if n in cls.ns]
                out.append(VC(C_INH.full + ':' + cls.name, [], z3.BoolVal(not bad), C_INH.props))
        return out
    if unit in ('param_eq', 'sig_eq'):
        C = PE if unit == 'param_eq' else SE
        level = 'param' if unit == 'param_eq' else 'sig'
        tag = ':' + other
        if r.outcome == 'raise':
            if on(C['raises']):
                out.append(VC(C['raises'].full + tag + ':' + r.exc.typname, [], z3.BoolVal(False), C['raises'].props))
            return out
        v = r.value
        if on(C['boolish']):
            out.append(VC(C['boolish'].full + tag, [], z3.BoolVal(v is True or v is False or v is NotImplemented), C['boolish'].props))
        truth = v is True
        info = env['info']
        me = info.params[0] if level == 'param' else info.sig
        if other == 'self' and on(C['refl']):
            out.append(VC(C['refl'].full, [], z3.BoolVal(truth), C['refl'].props))
        if other == 'plain_same' and on(C['twin']):
            out.append(VC(C['twin'].full, [], z3.BoolVal(truth), C['twin'].props))
        info2 = env.get('info2')
        if info2 is not None:
            ot = info2.params[0] if level == 'param' else info2.sig
            basis = _param_basis_eq(me, ot) if level == 'param' else _sig_basis_eq(me, ot)
            if on(C['basis']) and truth:
                out.append(VC(C['basis'].full + tag, [], basis, C['basis'].props))
            # an annotation whose evaluation fails has no value to compare: the property then only asks for a bool
            # (and, through eq_implies_basis, that True is never answered for different data)
            eval_failed = any(e[0] == 'external-raise' and e[1] == 'eval' for e in r.ctx.events)
            if other == 'upgraded' and on(C['iff']) and (v is True or (v is False and not eval_failed)):
                if level == 'param':
                    ua = _ua_eq(I, me._d['upgraded_annotation'], ot._d['upgraded_annotation'])
                else:
                    # parameters are compared with THEIR __eq__ (basis and upgraded annotation), then the return wrapper
                    ps, pt = me._d['_parameters'].plist, ot._d['_parameters'].plist
                    full = lambda p, q: z3.And(_param_basis_eq(p, q), _ua_eq(I, p._d['upgraded_annotation'], q._d['upgraded_annotation']))
                    conj = [full(p, q) for p, q in zip(ps, pt) if p.kind != KWO]
                    kt = [q for q in pt if q.kind == KWO]
                    conj += [z3.Or(*[full(p, q) for q in kt]) if kt else z3.BoolVal(False) for p in ps if p.kind == KWO]
                    ua = z3.And(_ua_eq(I, me._d['upgraded_return_annotation'], ot._d['upgraded_return_annotation']), *conj)
                out.append(VC(C['iff'].full, [], z3.And(basis, ua) if truth else z3.Not(z3.And(basis, ua)), C['iff'].props))
            if other == 'plain_sym' and on(C['twin']) and (v is True or v is False):
                out.append(VC(C['twin'].full + ':iff_basis', [], basis if truth else z3.Not(basis), C['twin'].props))
        return out
    m = I.module('sigtools._signatures')
    UP, US = m.ns['UpgradedParameter'], m.ns['UpgradedSignature']
    if unit == 'param_replace':
        if not on(C_PREP):
            return out
        if r.outcome == 'raise':
            out.append(VC(C_PREP.full + ':no_exception', [], z3.BoolVal(False), C_PREP.props))
            return out
        p, q = env['info'].params[0], r.value
        ok = isinstance(q, Inst) and q._cls is UP and q is not p
        out.append(VC(C_PREP.full + ':upgraded_type', [], z3.BoolVal(bool(ok)), C_PREP.props))
        if ok:
            d, e = p._d, q._d
            over = other == 'override'
            kept = (e['upgraded_annotation'] is d['upgraded_annotation'] and e['source_depths'] is d['source_depths'] and
                    (e['_function'] is (env['new_fn'] if over else d['_function'])) and (e['sources'] is (env['new_src'] if over else d['sources'])))
            out.append(VC(C_PREP.full + ':extras_kept_unless_overridden', [], z3.BoolVal(bool(kept)), C_PREP.props))
            nv = env['new_default']
            plain = z3.And(z3.BoolVal(e['_name'] is d['_name'] and e['_kind'] == d['_kind']), e['_annotation'].has, e['_annotation'].val == nv.t,
                           e['_default'].has == d['_default'].has, z3.Implies(d['_default'].has, e['_default'].val == d['_default'].val))
            out.append(VC(C_PREP.full + ':inspect_part', [], plain, C_PREP.props))
        return out
    if unit == 'sig_replace':
        if not on(C_SREP):
            return out
        if r.outcome == 'raise':
            out.append(VC(C_SREP.full + ':no_exception', [], z3.BoolVal(False), C_SREP.props))
            return out
        s, t = env['info'].sig, r.value
        ok = isinstance(t, Inst) and t._cls is US and t is not s
        out.append(VC(C_SREP.full + ':upgraded_type', [], z3.BoolVal(bool(ok)), C_SREP.props))
        if ok:
            over = other == 'override'
            kept = (t._d['upgraded_return_annotation'] is s._d['upgraded_return_annotation'] and
                    t._d['sources'] is (env['new_src'] if over else s._d['sources']))
            out.append(VC(C_SREP.full + ':extras_kept_unless_overridden', [], z3.BoolVal(bool(kept)), C_SREP.props))
            same = [a is b for a, b in zip(t._d['_parameters'].plist, s._d['_parameters'].plist)]
            out.append(VC(C_SREP.full + ':inspect_part', [], z3.And(z3.BoolVal(all(same) and len(same) == len(s._d['_parameters'].plist)),
                                                                     _sig_basis_eq(s, t)), C_SREP.props))
        return out
    if unit == 'ua_twice':
        if not on(C_NOW) or r.outcome == 'raise':
            return out
        v1, v2 = env['vals']
        raw, fn = env['raw'], env['fn']
        t = lambda v: v.t if isinstance(v, SymVal) else None
        post = fn.postponed
        ok = t(v1) is not None and t(v2) is not None
        goal = z3.BoolVal(False)
        if ok:
            goal = z3.And(t(v1) == z3.If(post, sym.EVALIN(raw.t, fn.t), raw.t), t(v2) == z3.If(post, sym.EVALIN_AT(raw.t, fn.t, z3.IntVal(1)), raw.t))
        out.append(VC(C_NOW.full, [], goal, C_NOW.props))
        return out
    if unit in ('sig_init_plain', 'sig_replace_plain', 'sig_init_iter', 'sig_replace_iter', 'sig_init_plain_iter'):
        if not on(C_PLAIN):
            return out
        if r.outcome == 'raise':
            out.append(VC(C_PLAIN.full + ':no_exception:' + r.exc.typname, [], z3.BoolVal(False), C_PLAIN.props))
            return out
        t = r.value
        ps = t._d['_parameters'].plist if isinstance(t, Inst) and US in t._cls.mro and '_parameters' in t._d else None
        ok = ps is not None and len(ps) == len(env['plain'])
        out.append(VC(C_PLAIN.full + ':upgraded_signature', [], z3.BoolVal(bool(ok)), C_PLAIN.props))
        if ok:
            for q, p in zip(ps, env['plain']):
                up = isinstance(q, Inst) and UP in q._cls.mro
                goal = z3.BoolVal(bool(up))
                if up:
                    goal = z3.And(z3.BoolVal(q._d['_kind'] == p._d['_kind'] and q._d['_name'] is p._d['_name']),
                                  *[z3.And(q._d[k].has == p._d[k].has, z3.Implies(p._d[k].has, q._d[k].val == p._d[k].val)) for k in ('_default', '_annotation')])
                out.append(VC(C_PLAIN.full + ':' + (p._d.get('_vf_tag') or '?'), [], goal, C_PLAIN.props))
        return out
    if unit == 'sig_evaluated':
        if not on(C_EVAL) or r.outcome == 'raise':
            return out        # (evaluating an annotation runs user code: whatever it raises propagates)
        E = m.ns['EmptyAnnotation']
        t = r.value
        ps = t._d['_parameters'].plist if isinstance(t, Inst) and '_parameters' in t._d else None
        if ps is None or len(ps) != len(env['plist']):
            out.append(VC(C_EVAL.full + ':parameters', [], z3.BoolVal(False), C_EVAL.props))
            return out
        for p, q in zip(env['plist'], ps):
            h, den = ua_denotes(p._d['upgraded_annotation'], E)
            a = q._d['_annotation']
            same = z3.And(z3.BoolVal(q._d['_kind'] == p._d['_kind'] and q._d['_name'] is p._d['_name']), q._d['_default'].has == p._d['_default'].has,
                          z3.Implies(p._d['_default'].has, q._d['_default'].val == p._d['_default'].val))
            out.append(VC(C_EVAL.full + ':' + p._d.get('_vf_tag', '?'), [], z3.And(same, a.has == h, z3.Implies(h, a.val == den)), C_EVAL.props))
        h, den = ua_denotes(env['comb']._d['upgraded_return_annotation'], E)
        ra = t._d['_return_annotation']
        out.append(VC(C_EVAL.full + ':return', [], z3.And(ra.has == h, z3.Implies(h, ra.val == den)), C_EVAL.props))
        return out
    if unit == 'sig_init':
        if not on(C_INIT):
            return out
        if r.outcome == 'raise':
            out.append(VC(C_INIT.full + ':no_exception', [], z3.BoolVal(False), C_INIT.props))
            return out
        t, info = r.value, env['info']
        ok = isinstance(t, Inst) and [a for a in t._d['_parameters'].plist] == list(info.params) and all(a is b for a, b in zip(t._d['_parameters'].plist, info.params))
        ra, rb = t._d['_return_annotation'], info.sig._d['_return_annotation']
        out.append(VC(C_INIT.full, [], z3.And(z3.BoolVal(bool(ok) and t._d.get('sources') is env['src']), ra.has == rb.has, z3.Implies(ra.has, ra.val == rb.val)), C_INIT.props))
    return out


# --------------------------------------------------------------------------- native replay
def replay(env, vc, model):
    """build the real objects and compare natively (==, hash, replace)"""
    import inspect
    from vf.concrete import Concretizer, real_sigtools, make_function
    real_sigtools()
    from sigtools import _signatures
    unit, other = env['unit'], env['other']
    bad = []
    if unit == 'class':
        def f(a, b=1, *c, d, **e): pass
        s = _signatures.signature(f)
        for what, o in (('UpgradedSignature', s), ('UpgradedParameter', s.parameters['a'])):
            try:
                hash(o)
            except TypeError as e:
                bad.append(('class:hashable', '%s: hash() raises %r' % (what, e)))
        if str(s) != str(inspect.signature(f)):
            bad.append(('class:inherits_str_bind', 'str differs'))
        return dict(status='reproduced' if bad else 'not-reproduced', op='dropin:class', violated=[list(b) for b in bad])
    conc = Concretizer(model)
    # a path on which the external ``eval`` raised: the native postponed functions get annotations that cannot be evaluated
    conc.unevaluable = any(e[0] == 'external-raise' and e[1] == 'eval' for e in env['r'].ctx.events)
    if conc.unevaluable:
        # the native functions spell annotations as bare names: evaluating one can only fail with NameError
        from vf.objects import class_name
        for e in env['r'].ctx.events:
            if e[0] == 'external-raise' and e[1] == 'eval':
                t = e[2].typ
                if getattr(t, '_vf_symbolic_exc', False):
                    cls = class_name(t.universe[model.eval(t.term, model_completion=True).as_long()])
                    if cls != 'NameError':
                        return dict(status='no-replay', op='dropin:' + env['unit'], note='the counterexample has the evaluation of an annotation raise %s; the native '
                                    'harness spells annotations as bare names, whose evaluation can only raise NameError (an attribute expression such as '
                                    'typing.OnlyInStubs raises AttributeError)' % cls)
    info = env['info']
    sig = conc.build_sig(info)
    level = 'param' if unit.startswith('param') else 'sig'
    if other == 'self' and unit in ('param_eq', 'sig_eq'):
        # values the model makes unequal to themselves are realised as float('nan')
        nan = float('nan')
        selfeq = lambda t: z3.is_true(model.eval(sym.SELFEQ(t), model_completion=True))
        new = []
        for sp, rp in zip(info.params, sig.parameters.values()):
            kw = {}
            d, a = sp._d['_default'], sp._d['_annotation']
            if rp.default is not rp.empty and not selfeq(d.val):
                kw['default'] = nan
            if rp.annotation is not rp.empty and not selfeq(sp._d['upgraded_annotation'].denotes):
                kw['annotation'] = nan
                kw['upgraded_annotation'] = _signatures.UpgradedAnnotation.preevaluated(nan)
            new.append(rp.replace(**kw) if kw else rp)
        kw = {}
        ra = info.sig._d['upgraded_return_annotation']
        if sig.return_annotation is not sig.empty and not selfeq(ra.denotes):
            kw = dict(return_annotation=nan, upgraded_return_annotation=_signatures.UpgradedAnnotation.preevaluated(nan))
        sig = sig.replace(parameters=new, **kw)
    me = list(sig.parameters.values())[0] if level == 'param' else sig
    if unit in ('param_eq', 'sig_eq'):
        plain_sig = inspect.signature(list(sig.sources['+depths'])[0])
        if other == 'self':
            o = me
        elif other == 'none':
            o = None
        elif other == 'foreign':
            o = object()
        elif other == 'plain_same':
            o = list(plain_sig.parameters.values())[0] if level == 'param' else plain_sig
        else:
            s2 = conc.build_sig(env['info2'])
            if other == 'plain_sym':
                s2 = inspect.signature(list(s2.sources['+depths'])[0])
            o = list(s2.parameters.values())[0] if level == 'param' else s2
        try:
            v = (me == o)
            v2 = (o == me)
            if not isinstance(v, bool):
                bad.append(('post:bool_or_notimplemented', repr(v)))
            if other in ('self', 'plain_same') and not (v and v2):
                bad.append(('post:reflexive' if other == 'self' else 'post:equals_plain_twin', '%r == %r gives %r / %r' % (me, o, v, v2)))
            if v and other in ('upgraded', 'plain_sym'):
                try:
                    if hash(me) != hash(o):
                        bad.append(('post:eq_implies_basis', 'equal but hashes differ'))
                except TypeError as e:
                    bad.append(('post:eq_implies_basis', 'hash raises %r' % (e,)))
        except Exception as e:
            bad.append(('raises:nothing', '%r == %r raises %r' % (me, o, e)))
        key = ':'.join(vc.name.split('/', 1)[1].split(':')[:2])
        hit = [b for b in bad if b[0] == key]
        return dict(status='reproduced' if hit else ('other-violation' if bad else 'not-reproduced'), op='dropin:' + unit, other=other,
                    me=str(me), compared_with=repr(o), violated=[list(b) for b in (hit or bad)])
    if unit == 'ua_twice':
        ns = {}
        exec(compile('from __future__ import annotations\nclass First: pass\nclass Second: pass\nTarget = First\ndef f(a: Target): pass\n', '<vf-rebind>', 'exec'), ns)
        ua = _signatures.signature(ns['f']).parameters['a'].upgraded_annotation
        v1 = ua.source_value()
        ns['Target'] = ns['Second']
        v2 = ua.source_value()
        if not (v1 is ns['First'] and v2 is ns['Second']):
            bad.append(('post:evaluated_when_asked', 'source_value() before / after the module rebinds Target: %r / %r' % (v1, v2)))
        return dict(status='reproduced' if bad else 'not-reproduced', op='dropin:ua_twice', violated=[list(b) for b in bad])
    if unit in ('sig_init_plain', 'sig_replace_plain', 'sig_init_iter', 'sig_replace_iter', 'sig_init_plain_iter'):
        plain = list(inspect.signature(list(sig.sources['+depths'])[0]).parameters.values()) if 'plain' in unit else list(sig.parameters.values())
        try:
            import warnings as _w
            with _w.catch_warnings():
                _w.simplefilter('ignore')
                given = iter(list(plain)) if unit.endswith('_iter') else plain
                res = _signatures.UpgradedSignature(given) if unit.startswith('sig_init') else sig.replace(parameters=given)
            if [(q.name, int(q.kind)) for q in res.parameters.values()] != [(q.name, int(q.kind)) for q in plain]:
                bad.append(('post:plain_parameters_upgraded', '%s built from %d parameters handed over as %s has the parameters %s' % (
                    type(res).__name__, len(plain), 'a one-shot iterator' if unit.endswith('_iter') else 'a list', res)))
            for q in res.parameters.values():
                if not isinstance(q, _signatures.UpgradedParameter):
                    bad.append(('post:plain_parameters_upgraded', 'parameter %s of %s is a plain inspect.Parameter' % (q.name, res)))
        except Exception as e:
            bad.append(('post:plain_parameters_upgraded', 'raises %r' % (e,)))
        return dict(status='reproduced' if bad else 'not-reproduced', op='dropin:' + unit, parameters=[str(p) for p in plain], violated=[list(b) for b in bad])
    if unit == 'sig_evaluated':
        import sigtools
        s2 = conc.build_sig(env['info2'])
        params = [p for p in sig.parameters.values() if p.kind != p.VAR_KEYWORD] + list(s2.parameters.values()) + [p for p in sig.parameters.values() if p.kind == p.VAR_KEYWORD]
        try:
            comb = sig.replace(parameters=params)
            ev = comb.evaluated()
            for p, q in zip(comb.parameters.values(), ev.parameters.values()):
                want_ = p.upgraded_annotation.source_value()
                if q.annotation is not want_ and q.annotation != want_:
                    bad.append(('post:denoted_objects', 'parameter %s: evaluated() gives %r, its upgraded annotation denotes %r' % (p.name, q.annotation, want_)))
            want_ = comb.upgraded_return_annotation.source_value()
            if ev.return_annotation is not want_ and ev.return_annotation != want_:
                bad.append(('post:denoted_objects', 'return: evaluated() gives %r, denotes %r' % (ev.return_annotation, want_)))
        except Exception as e:
            return dict(status='not-reproduced', op='dropin:sig_evaluated', error=repr(e))
        return dict(status='reproduced' if bad else 'not-reproduced', op='dropin:sig_evaluated', signature=str(comb), violated=[list(b) for b in bad])
    if unit in ('param_replace', 'sig_replace'):
        marker = {} if level == 'sig' else []
        over = other == 'override'
        try:
            if level == 'sig':
                res = me.replace(sources=marker) if over else me.replace()
            else:
                res = me.replace(annotation=7, sources=marker) if over else me.replace(annotation=7)
        except Exception as e:
            bad.append(('post:replace_keeps', 'replace raises %r' % (e,)))
        else:
            if type(res) is not type(me):
                bad.append(('post:replace_keeps', 'type %r' % (type(res),)))
            if res.sources is not (marker if over else me.sources):
                bad.append(('post:replace_keeps', 'sources %s' % ('override ignored' if over else 'not kept')))
            ua = 'upgraded_return_annotation' if level == 'sig' else 'upgraded_annotation'
            if getattr(res, ua) is not getattr(me, ua):
                bad.append(('post:replace_keeps', ua + ' not kept'))
        return dict(status='reproduced' if bad else 'not-reproduced', op='dropin:' + unit, other=other, me=str(me),
                    call='replace(sources=<empty>)' if over else 'replace()', violated=[list(b) for b in bad])
    return dict(status='no-replay', op='dropin:' + unit)


crosscheck = None
