import sys, time, json, itertools
sys.path.insert(0, '/verif')
from vf import runner, harness
want = sys.argv[1].split(',')
maxp, maxk, maxq, maxtot, arity = map(int, sys.argv[2:7])
shs = harness.shapes(maxp, maxk, maxq, maxtot)
combos = list(itertools.product(shs, repeat=arity))
tasks = [dict(module='contracts.merge', want=want, args=dict(shapes_=list(p))) for p in combos]
t = time.time()
res = runner.merge_results(runner.run_pool(tasks))
print('tasks', res['tasks'], 'paths', res['paths'], 'obl', res['obligations'], 'fail', len(res['failures']), 'limits', len(res['limits']), 'eng', len(res['engine_errors']), 'mism', len(res['cross_mismatch']), 'z3', round(res['z3_s'],1), 'wall', round(time.time()-t,1))
