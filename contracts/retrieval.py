"""Contracts of the retrieval chain (tier P: no loop over a symbolic sequence; the inspected object, its attribute
state, every external outcome and every exception class are solver variables - see vf/objects.py):

 _autoforwards.autoforwards_function            mode 'af_function'
   frame:attributes_restored      C16  on EVERY exit (normal or exceptional, every external call allowed to raise) the
                                       instance dict of the inspected object is what it was at entry
   raises:only_inspect_or_unknown C07  escapes only UnknownForwards or what inspect.signature / a descriptor raised
   pre:ast_is_function            C07  call-site precondition of autoforwards_ast/CallListerVisitor: the node is a def
 _specifiers.forged_signature                    mode 'forged'
   frame:attributes_restored      C16  no object reachable from the argument changes attributes, on every exit
   raises:forger_errors_surface   C07/C04  an exception raised by an explicit forger leaves forged_signature unchanged
                                       (a declaration that cannot be honoured surfaces; never a silent fallback to a
                                       signature the wrapper cannot honour)
   raises:subset_of_inspect       C07  nothing escapes but what the forger, inspect.signature or a user descriptor raised
                                       (+ ValueError of plain partial retrieval)
   post:upgraded                  C07/C15  the result is an UpgradedSignature
   post:forger_result_used        C04  a non-None forger result is THE result
 _autoforwards.autoforwards_ast                  mode 'af_ast'
   raises:only_UnknownForwards    C07/C15  merge / forwards failures become UnknownForwards (retrieval falls back)
 specifiers._AsForged.__get__                    mode 'as_forged'
   frame:guard_restored           C16  currently_computing after == before, on every exit
   raises:AttributeError_iff_computing  C16/C13

Callee contracts used as summaries (mode 'summarise'):
   autoforwards_ast (inside af_function / forged): returns an upgraded signature or raises UnknownForwards, writes
     nothing (the frame part is the induction hypothesis of this very contract for the callee objects);
   forward_signatures / CallListerVisitor / merge (inside af_ast): yield upgraded signatures or raise UnknownForwards;
     no exception for a function node; merge raises only ValueError (C15, discharged by contracts.merge).
"""
import z3

from vf import sym, harness, world, objects
from vf.sym import SymRef, SymBool, SymDict, PyExc, EngineLimit, CTX, Opaque
from vf.interp import Interp, Inst, IClass
from vf.harness import VC, mk_sig
from vf.objects import SymObj, Slot, SymCallable, MethodWrapper, may_raise, class_name
from vf import sym as _sym
from .common import clause
from vf.spec import Z3Ops

UF = '_autoforwards.autoforwards_function'
UG = '_specifiers.forged_signature'
UA_ = '_autoforwards.autoforwards_ast'
UD = 'specifiers._AsForged.__get__'

F_RESTORE = clause(UF, 'frame:attributes_restored', ['C16', 'C05', 'C06', 'C07'], 'P')      # the fallback reads __wrapped__ / __signature__ afterwards
F_RAISES = clause(UF, 'raises:only_inspect_or_unknown', ['C07'], 'P')
F_ASTPRE = clause(UF, 'pre:ast_is_function', ['C07'], 'P')
F_STRIPPED = clause(UF, 'pre:own_signature_read_with_the_wrapper_attributes_stripped', ['C05', 'C06', 'C07'], 'P',
                    'the signature paired with the function\'s own AST is the one of its def: when autoforwards_function asks inspect for it, '
                    'neither __signature__ nor __wrapped__ is in the instance dict (whichever subset of the two the object carries)')
F_ANN = clause(UF, 'post:annotate_values_reach_discovery', ['C11'], 'P',
               'values given to modifiers.annotate are reported verbatim also through automatic discovery: the signature discovery starts from '
               'carries, for every parameter annotate was given a value for, that value')
F_UA = clause(UF, 'post:own_annotations_resolve_in_own_globals', ['C11'], 'P',
              'the signature handed to discovery carries, for every annotated parameter of the inspected function, a wrapper that denotes the annotation in THAT function\'s '
              'globals under ITS compilation mode - whatever the function it wraps (__wrapped__) looks like')
G_FRAME = clause(UG, 'frame:attributes_restored', ['C16', 'C05', 'C06', 'C07'], 'P')
G_FORGER = clause(UG, 'raises:forger_errors_surface', ['C07', 'C04'], 'P')
G_SUBSET = clause(UG, 'raises:subset_of_inspect', ['C07'], 'P')
G_UP = clause(UG, 'post:upgraded', ['C07', 'C15', 'C14', 'C04'], 'P')
G_USED = clause(UG, 'post:forger_result_used', ['C04'], 'P')
A_ONLY = clause(UA_, 'raises:only_UnknownForwards', ['C07', 'C15'], 'P')
A_HINT = clause(UA_, 'pre:analysed_as_the_hint_says', ['C07', 'C05', 'C06'], 'P',
                'call-site precondition: when the node analysed is the one a hint supplied, the function whose names are resolved and the '
                'signature forwarded into are that hint\'s (function, node, signature) - not the hint-bearing wrapper')
UW = '_autoforwards.forward_signatures'
W_RAISE = clause(UW, 'raises:callee_failures_fall_back', ['C07', 'C06', 'C15'], 'P',
                 'an unresolvable callee, a ValueError/TypeError of its retrieval or of forwards() becomes UnknownForwards')
W_ELEM = clause(UW, 'post:each_call_forwards_with_its_own_shape', ['C06', 'C05'], 'P',
                'one element per call that uses a star parameter, = forwards(sig, forged(callee, args, kwargs), number of positionals '
                '(-1 through functools.partial), *keyword names, the use/hide flags OF THAT CALL, partial=...); others skipped')
G_PLAIN = clause(UG, 'post:fallback_is_plain_retrieval', ['C06', 'C05', 'C07'], 'P',
                 'without a forger / hint / discovery result the value returned is the one signatures.signature(obj) returns')
A_MERGE = clause(UA_, 'post:merge_over_all_elements', ['C06', 'C05'], 'P', 'the result is merge(*elements) over every element forward_signatures yields, in order')
US_ = 'sphinxext.process_signature'
S_TOTAL = clause(US_, 'raises:nothing_for_documentable', ['C07'], 'P',
                 'whatever retrieval and annotation evaluation raise, the hook returns (given a name that can be imported)')
S_STR = clause(US_, 'post:two_strings_or_inputs', ['C07'], 'P')
UM_ = 'specifiers.forwards_to_method'
M_BOUND = clause(UM_, 'post:bound_means_forwards', ['C04'], 'P',
                 'unbound (no __self__, or None): no opinion (None); bound to ANY instance - whatever its truth value - the result is '
                 'specifiers.forwards(obj, <attribute chain on the instance>, *args, **kwargs)')
US2 = 'specifiers.forwards_to_super'
S_BOUND = clause(US2, 'post:bound_means_forwards', ['C04'], 'P')
UF2 = 'specifiers.forwards'
F_COMP = clause(UF2, 'post:is_signatures_forwards_of_the_two_signatures', ['C04'], 'P',
                '= signatures.forwards(signatures.signature(wrapper), specifiers.signature(wrapped), *args, **kwargs)')
UPA = '_autoforwards.autoforwards_partial'
PA_COMP = clause(UPA, 'post:looks_through_the_partial', ['C19', 'C05', 'C06', 'C10'], 'P',      # discovery 'through functools.partial' is C05/C06's too

                 '= _mask(autoforwards(par.func, par.args, {}), len(par.args), no hide flag, par.keywords or {}, par) for EVERY partial object, '
                 'with or without bound positionals; positionals are handed to discovery, keywords are not')
UAM = '_autoforwards.autoforwards_method'
AM_COMP = clause(UAM, 'post:discovers_through_the_function_with_the_receiver_first', ['C05', 'C06', 'C07', 'C19'], 'P',
                 '= mask(autoforwards(method.__func__, (method.__self__,) + args, kwargs), 1) for EVERY bound method - whatever the truth value '
                 'of the receiver, which comes first among the known positional arguments; UnknownForwards only for an unbound one '
                 '(__self__ is None), when the inner discovery says so, or when the callee cannot take the receiver')
UT = '_specifiers.forged_signature (termination)'
T_REC = clause(UT, 'rt:cyclic_forwarding_graph_terminates', ['C07'], 'R',
               'runtime contract on two concrete programs: a function forwarding to itself, and a two-function cycle')
D_GUARD = clause(UD, 'frame:guard_restored', ['C16', 'C13'], 'P')
D_ATTR = clause(UD, 'raises:AttributeError_iff_computing', ['C16', 'C13', 'C04'], 'P')

DEF_SHAPES = [(0, 1, 1, 0, 1), (0, 1, 0, 0, 0), (0, 0, 0, 0, 1)]
FUNCTION_NODES = ('FunctionDef', 'AsyncFunctionDef', 'Lambda')


class SymNode:
    """a node returned by ast.parse(...).body[0]: its class is a task parameter"""

    def __init__(self, cls):
        self.cls = cls

    def _vf_node_class(self):
        return self.cls

    def _vf_isinstance(self, interp, c):
        import ast as _ast
        real = getattr(_ast, self.cls)
        return isinstance(c, type) and issubclass(real, c)

    def _vf_getattr(self, interp, name):
        if self.cls in ('FunctionDef', 'AsyncFunctionDef') and name in ('args', 'body', 'name', 'decorator_list'):
            return Opaque('ast field')
        raise PyExc(AttributeError, ("'%s' object has no attribute %r" % (self.cls, name),))


class SymModule:
    def __init__(self, node):
        self.body = [node]


def slot(name, what, value, cls_value=None):
    return Slot(z3.Bool('inst_%s_%s' % (name, what)), z3.Bool('cls_%s_%s' % (name, what)), value, cls_value if cls_value is not None else value)


def is_unknown_forwards(I, exc):
    t = exc.typ
    if isinstance(t, IClass):
        return z3.BoolVal(any(class_name(c) == 'UnknownForwards' for c in t.mro))
    if getattr(t, '_vf_symbolic_exc', False):
        return t.is_class(I, 'UnknownForwards')
    return z3.BoolVal(False)


def make_runner(mode, shape=DEF_SHAPES[0], node='FunctionDef', kind='function', want=None, variant=None, annotated=False):
    variant = dict(variant or {})     # symbolic choices fixed by the task (splits one unit over several tasks)
    I = Interp()
    env = {'interp': I, 'mode': mode}
    ma = I.module('sigtools._autoforwards')
    ms = I.module('sigtools._signatures')
    msp = I.module('sigtools._specifiers')

    def run(ctx, r):
        objects.CURRENT_INTERP[0] = I

        def choose(name):
            if name in variant:
                return bool(variant[name])
            return ctx.decide(z3.Bool(name))
        env['r'] = r
        env.pop('forger_returned', None)
        env.pop('forger_returned_plain', None)
        env.pop('af_ast_returned', None)
        env.pop('kwonly_sig', None)
        env.pop('own_signature_reads', None)
        env['inside_af_function'] = mode == 'af_function'
        objs = []
        env['objs'] = objs
        env['ast_pre'] = []
        info = mk_sig(I, ctx, 'd', shape, tracked=False, annotations=(mode == 'af_function_ua'))
        env['def_info'] = info
        plain = world.plain_signature(I, info)
        UF_cls = ma.ns['UnknownForwards']

        def new_obj(name, kind='function', **kw):
            o = SymObj(name, kind, **kw)
            objs.append(o)
            return o

        def external(interp_, name, args, kwpairs):
            if name == 'inspect.signature':
                ctx.log('external-call', 'inspect.signature')
                o = args[0] if args else None
                if isinstance(o, SymObj) and env.get('inside_af_function'):
                    # what inspect.signature would look at first: __signature__, then __wrapped__, in the instance dict
                    seen = [a for a in ('__signature__', '__wrapped__') if a in o.slots and _dec_now(ctx, o.slots[a].inst)]
                    env.setdefault('own_signature_reads', []).append((o, seen))
                may_raise(interp_, 'inspect.signature', allowed=('TypeError', 'ValueError'))
                return plain
            if name == 'inspect.getsource':
                may_raise(interp_, 'inspect.getsource', allowed=('OSError',))
                return Opaque('source')
            if name == 'inspect.cleandoc':
                return Opaque('source')
            if name == 'ast.parse':
                may_raise(interp_, 'ast.parse', allowed=('SyntaxError', 'ValueError'))
                return SymModule(SymNode(node))
            if name == 'eval':
                return world.install_externals.__globals__['SymVal'](sym.EVALIN(sym.to_mv(args[0]).val, args[1].func.t))
            raise EngineLimit('external call %s' % name)
        I.external_call = external

        def af_ast_summary(interp_, clo, args, kwpairs):
            # contract of autoforwards_ast used as summary
            func_ast = args[1] if len(args) > 1 else dict(kwpairs).get('func_ast')
            sig = args[2] if len(args) > 2 else dict(kwpairs).get('sig')
            env['ast_pre'].append(func_ast)
            env.setdefault('ast_calls', []).append((args[0] if args else dict(kwpairs).get('func'), func_ast, sig))
            if ctx.decide(ctx.fresh('af_ast_unknown', z3.BoolSort())):
                raise PyExc(UF_cls, ())
            # the contract promises SOME upgraded signature: either one shaped like the def-signature, or one that
            # cannot take any positional argument (all keyword-only) - what forwarding to a keyword-only callee gives
            if ctx.decide(ctx.fresh('discovered_signature_is_keyword_only', z3.BoolSort())):
                if 'kwonly_sig' not in env:
                    env['kwonly_sig'] = mk_sig(I, ctx, 'w', (0, 0, 0, 1, 0), tracked=False, annotations=False).sig
                res = I.call(I.getattr_(env['kwonly_sig'], 'replace'), [], [])
            else:
                res = I.call(I.getattr_(sig, 'replace'), [], [])       # a fresh object
            env.setdefault('af_ast_returned', []).append(res)
            return res

        if mode in ('af_function', 'af_function_ua', 'forged'):
            I.call_hooks['_autoforwards:autoforwards_ast'] = af_ast_summary

        if mode == 'af_function_ua':
            wrapped = new_obj('wrapped_target')
            f = new_obj('func', slots={'__wrapped__': slot('func', 'wrapped', wrapped)})
            env['annotated'] = None
            if annotated:
                # modifiers.annotate left an upgraded signature on the function: the def parameters, with the GIVEN values as
                # (pre-evaluated) annotations of an arbitrary subset of them
                ai = mk_sig(I, ctx, 'n', shape, tracked=False)
                ctx.add(z3.Not(ai.postponed))
                for a_, b_ in zip(ai.names, info.names):
                    ctx.add(a_ == b_)
                f.slots['__signature__'] = Slot(True, False, ai.sig, None)
                env['annotated'] = ai
            env['f'] = f
            env['sigs_to_discovery'] = []
            prev = I.call_hooks['_autoforwards:autoforwards_ast']

            def capture(interp_, clo, args, kwpairs):
                env['sigs_to_discovery'].append(args[2] if len(args) > 2 else dict(kwpairs).get('sig'))
                return prev(interp_, clo, args, kwpairs)
            I.call_hooks['_autoforwards:autoforwards_ast'] = capture
            for o in objs:
                o.snapshot()
            harness.run_unit(I, ma.ns['autoforwards_function'], [f, (), SymDict()], [], r)
        elif mode == 'af_function':
            wrapped = new_obj('wrapped_target')
            sigobj = Opaque('a __signature__ value')
            f = new_obj('func', slots={'__wrapped__': slot('func', 'wrapped', wrapped), '__signature__': slot('func', 'signature', sigobj)})
            # the object may be a CLASS whose own namespace stores a descriptor under __signature__ (specifiers.as_forged):
            # attribute lookup then yields what the descriptor computes, not the stored descriptor
            f.descriptors['__signature__'] = (z3.Bool('own___signature___is_a_descriptor'), Opaque('what the descriptor computes'))
            # ... or an object that refuses attribute assignment and deletion alike (a frozen dataclass instance)
            f.frozen = z3.Bool('object_refuses_attribute_changes')
            for o in objs:
                o.snapshot()
            harness.run_unit(I, ma.ns['autoforwards_function'], [f, (), SymDict()], [], r)
        elif mode == 'forged':
            gi = mk_sig(I, ctx, 'g', (0, 1, 0, 0, 0), tracked=False, annotations=False)

            def forger_behaviour(interp_, args, kwpairs):
                if choose('forger_returns_none'):
                    return None
                if choose('forger_returns_a_plain_inspect_signature'):
                    # a user-written forger may hand back what inspect.signature gave it
                    env['forger_returned_plain'] = world.plain_signature(I, gi)
                    return env['forger_returned_plain']
                env['forger_returned'] = gi.sig
                return gi.sig
            forger = SymCallable('forger', forger_behaviour)

            def hint_behaviour(interp_, args, kwpairs):
                if choose('hint_returns_none'):
                    return None
                # contract of a hint (modifiers._sigtools__autoforwards_hint): None or (function, its def node, signature);
                # the function is the RAW one the hint-bearing wrapper was built around, not the inspected object
                t = (env['hint_func'], SymNode('FunctionDef'), env['hint_sig'])
                env['hints_returned'].append(t)
                return t
            hint = SymCallable('hint', hint_behaviour)
            env['hint_func'] = new_obj('hint_function')
            env['hints_returned'] = []
            wrapped = new_obj('wrapped_target')
            common = lambda n: {'__signature__': slot(n, 'signature', Opaque('sig value')), '_sigtools__forger': slot(n, 'forger', forger),
                                '_sigtools__autoforwards_hint': slot(n, 'hint', hint), '__wrapped__': slot(n, 'wrapped', wrapped)}
            if kind == 'function':
                obj = new_obj('obj', 'function', slots=common('obj'), defaults={'__call__': MethodWrapper()})
            else:
                call = new_obj('obj_call', 'method', slots=common('obj_call'), defaults={'__call__': MethodWrapper()})
                call.defaults['__self__'] = None
                obj = new_obj('obj', 'instance', slots=common('obj'), defaults={'__call__': call})
                obj.truthy = z3.Bool('receiver_is_truthy')       # an instance of a user class: its truth value is the user's business
                call.defaults['__self__'] = obj
                call.defaults['__func__'] = new_obj('obj_call_func', 'function', slots=common('obj_call_func'), defaults={'__call__': MethodWrapper()})
            env['obj'] = obj
            env['plain_results'] = []

            def plain_boundary(interp_, clo, frame, oc):
                if oc[0] == 'return':
                    env['plain_results'].append(oc[1])
            I.boundary_hooks['_signatures:signature'] = plain_boundary
            env['hint_sig'] = mk_sig(I, ctx, 'h', (0, 1, 0, 0, 0), tracked=False, annotations=False).sig
            for o in objs:
                o.snapshot()
            auto = bool(variant['auto']) if 'auto' in variant else SymBool(z3.Bool('auto'))
            harness.run_unit(I, msp.ns['forged_signature'], [obj], [('auto', auto)], r)
        elif mode == 'af_ast':
            UFw = UF_cls
            up = mk_sig(I, ctx, 'u', (0, 1, 0, 0, 0), tracked=False, annotations=False).sig
            IS = ms.ns['IncompatibleSignatures']

            def fs_summary(interp_, clo, args, kwpairs):
                def gen():
                    n = 0
                    while n < 2 and ctx.decide(ctx.fresh('fs_more', z3.BoolSort())):
                        n += 1
                        e = I.call(I.getattr_(up, 'replace'), [], [])
                        env['yield_log'].append(e)
                        yield e
                    if ctx.decide(ctx.fresh('fs_unknown', z3.BoolSort())):
                        raise PyExc(UFw, ())
                return gen()
            I.call_hooks['_autoforwards:forward_signatures'] = fs_summary

            def visitor_summary(interp_, clo, args, kwpairs):
                return None
            I.call_hooks['_autoforwards:CallListerVisitor.__init__'] = visitor_summary

            env['yield_log'] = []
            env['merge_args'] = None

            def merge_summary(interp_, clo, args, kwpairs):
                # contract of merge (C15, discharged by contracts.merge): an upgraded signature or IncompatibleSignatures
                env['merge_args'] = list(args)
                if ctx.decide(ctx.fresh('merge_incompatible', z3.BoolSort())):
                    e = I.instantiate(IS, [args[0], ()], [])
                    raise I.make_exc(e)
                if ctx.decide(ctx.fresh('merge_plain_ValueError', z3.BoolSort())):
                    # inputs that are not role-consistent: the inspect.Signature constructor rejects the result
                    raise PyExc(ValueError, ('duplicate parameter name',))
                return args[0]
            I.call_hooks['_signatures:merge'] = merge_summary
            f = new_obj('func')
            for o in objs:
                o.snapshot()
            harness.run_unit(I, ma.ns['autoforwards_ast'], [f, SymNode('FunctionDef'), up], [], r)
        elif mode == 'fwd':
            # forward_signatures over two recorded calls whose flags / argument counts are symbolic
            Call = ma.ns['Call']
            Arg = ma.ns['Arg']
            UFw = UF_cls
            URN = ma.ns['UnresolvableName']
            up = mk_sig(I, ctx, 'u', (0, 1, 1, 0, 1), tracked=False, annotations=False).sig
            callee_sigs = [mk_sig(I, ctx, 'c%d' % j, (0, 1, 0, 0, 0), tracked=False, annotations=False).sig for j in range(2)]
            callees = [new_obj('callee%d' % j) for j in range(2)]
            calls = []
            for j in range(2):
                fl = {k: SymBool(z3.Bool('%s_%d' % (k, j))) for k in ('use_varargs', 'use_varkwargs', 'hide_args', 'hide_kwargs')}
                marker = I.instantiate(ma.ns['Name'], ['callee%d' % j], [])
                nargs = 1 if ctx.decide(z3.Bool('one_positional_%d' % j)) else 0
                fwdargs = [I.instantiate(Arg, ['p%d' % j], [])] * nargs
                kw = SymDict()
                if ctx.decide(z3.Bool('one_keyword_%d' % j)):
                    kw.items_ = [('kw%d' % j, I.instantiate(Arg, ['q%d' % j], []))]
                # the call may be written functools.partial(callee, ...): then the callee is the first explicit argument
                via_partial = j == 0 and choose('written_as_functools_partial_%d' % j)
                wrapped_marker = marker
                if via_partial:
                    wrapped_marker = I.instantiate(ma.ns['Name'], ['partial'], [])
                    fwdargs = [marker] + fwdargs
                # the wrapper's own *args may already hold values known to discovery (deep-argument paths)
                star_marker = I.instantiate(Arg, ['args'], [])
                nspill = 0
                if j == 0:
                    nspill = 2 if choose('two_values_already_in_star_args') else (1 if choose('one_value_already_in_star_args') else 0)
                calls.append(dict(flags=fl, marker=marker, nargs=nargs, kw=kw, via_partial=via_partial, wrapped_marker=wrapped_marker, star_marker=star_marker,
                                  spilled=tuple(Opaque('value %d in *args' % i) for i in range(nspill)),
                                  rec=Call(wrapped_marker, fwdargs, kw, star_marker, None, fl['use_varargs'], fl['use_varkwargs'], fl['hide_args'], fl['hide_kwargs'])))
            same_callee = choose('both_calls_same_callee')
            if same_callee:
                # the two calls name the same callee with the same explicit arguments: only the star usage differs
                calls[1]['marker'] = calls[0]['marker']
                calls[1]['rec'] = calls[1]['rec']._replace(wrapped=calls[0]['rec'].wrapped, args=calls[0]['rec'].args, kwargs=calls[0]['rec'].kwargs)
                calls[1]['nargs'], calls[1]['kw'], calls[1]['via_partial'], calls[1]['wrapped_marker'] = calls[0]['nargs'], calls[0]['kw'], calls[0]['via_partial'], calls[0]['wrapped_marker']
            env['calls'] = calls
            env['fw_calls'] = []
            env['yielded'] = []

            def rn_summary(interp_, clo, args, kwpairs):
                obj = args[0]
                unknown = dict(kwpairs).get('unknown', args[3] if len(args) > 3 else False)
                for j, c in enumerate(calls):
                    if obj is c['star_marker']:
                        return c['spilled']
                    if c['via_partial'] and obj is c['wrapped_marker']:
                        return I.getattr_(ma.ns['functools'], 'partial')
                for j, c in enumerate(calls):
                    if obj is c['marker']:
                        if ctx.decide(ctx.fresh('unresolvable_callee', z3.BoolSort())):
                            if unknown:
                                return I.instantiate(ma.ns['Unknown'], [obj], [])
                            raise I.make_exc(I.instantiate(URN, [obj], []))
                        return callees[0 if same_callee else j]
                if unknown:
                    return I.instantiate(ma.ns['Unknown'], [obj], [])
                raise I.make_exc(I.instantiate(URN, [obj], []))
            I.call_hooks['_autoforwards:resolve_name'] = rn_summary

            def forged_summary(interp_, clo, args, kwpairs):
                # contract of forged_signature for the callee: an upgraded signature, or whatever its forger / inspect raise
                may_raise(interp_, 'forged_signature(callee)')
                return callee_sigs[callees.index(args[0])] if args[0] in callees else callee_sigs[0]
            I.call_hooks['_specifiers:forged_signature'] = forged_summary

            def forwards_summary(interp_, clo, args, kwpairs):
                env['fw_calls'].append((list(args), dict((k, v) for k, v in kwpairs)))
                if ctx.decide(ctx.fresh('forwards_incompatible', z3.BoolSort())):
                    raise I.make_exc(I.instantiate(ms.ns['IncompatibleSignatures'], [args[0], ()], []))
                if ctx.decide(ctx.fresh('forwards_mask_impossible', z3.BoolSort())):
                    # contract of forwards = embed o mask: the mask half raises a PLAIN ValueError when the callee cannot be
                    # passed the arguments written in the call (C03 raises:only_if_impossible)
                    raise PyExc(ValueError, ('Signature cannot be passed these arguments',))
                res = Opaque('forwards result #%d' % len(env['fw_calls']))
                env['fw_calls'][-1][1]['__result__'] = res
                return res
            I.call_hooks['_signatures:forwards'] = forwards_summary
            f = new_obj('func')
            for o in objs:
                o.snapshot()
            try:
                g = I.call(ma.ns['forward_signatures'], [f, [c['rec'] for c in calls], (), SymDict(), up], [])
                for x in g:
                    env['yielded'].append(x)
                r.outcome, r.value = 'return', None
            except PyExc as e:
                r.outcome, r.exc = 'raise', e
        elif mode == 'sphinx':
            sx = I.module('sigtools.sphinxext')
            obj = new_obj('documented')
            parent = new_obj('parent_module', 'instance')
            usig = mk_sig(I, ctx, 'u', (0, 1, 0, 0, 0), tracked=False).sig

            def fetch(interp_, clo, args, kwpairs):
                # a documentable object: its dotted name can be imported (AttributeError: handled by the hook itself)
                may_raise(interp_, 'fetch_dotted_name', allowed=('AttributeError',))
                return (parent, obj)
            I.call_hooks['sphinxext:fetch_dotted_name'] = fetch

            def sig_summary(interp_, clo, args, kwpairs):
                may_raise(interp_, 'forged_signature', allowed=('TypeError', 'ValueError'))
                return usig
            I.call_hooks['_specifiers:forged_signature'] = sig_summary

            def ev(interp_, name, args, kwpairs):
                if name == 'eval':
                    may_raise(interp_, 'eval')       # evaluating an annotation runs arbitrary code
                    return world.install_externals.__globals__['SymVal'](sym.EVALIN(sym.to_mv(args[0]).val, args[1].func.t))
                raise EngineLimit('external call %s' % name)
            I.external_call = ev
            env['in_sig'], env['in_ret'] = Opaque('sig argument'), Opaque('return_annotation argument')
            harness.run_unit(I, sx.ns['process_signature'], [None, 'function', Opaque('dotted name'), obj, None, env['in_sig'], env['in_ret']], [], r)
        elif mode == 'recursion':
            env['rec_results'] = recursion_cases()
            r.outcome, r.value = 'return', None
        elif mode in ('fwd_method', 'fwd_super'):
            spm = I.module('sigtools.specifiers')
            inst = new_obj('bound_instance', 'instance')
            inst.truthy = z3.Bool('instance_is_truthy')
            target = new_obj('target_attribute')
            inst.slots['egg'] = Slot(True, False, target, None)
            has_self = z3.Bool('method_is_bound')
            obj = new_obj('decorated_method', 'method')
            obj.slots['__self__'] = Slot(has_self, False, inst, None)
            if ctx.decide(z3.Bool('self_attribute_is_None')):
                obj.slots['__self__'].v_inst = None
            obj.defaults['__name__'] = 'egg'
            env.update(obj=obj, inst=inst, target=target)
            rec = env['fwd_calls'] = []

            def fwd(interp_, clo, a, kw):
                rec.append((list(a), list(kw)))
                return Opaque('forwards result')
            I.call_hooks['specifiers:forwards'] = fwd
            for o in objs:
                o.snapshot()
            if mode == 'fwd_method':
                # (obj is keyword-only: the forger protocol calls forger(obj=...))
                harness.run_unit(I, spm.ns['forwards_to_method'], ['egg', 1], [('obj', obj), ('use_varargs', False)], r)
            else:
                sup_target = new_obj('super_method')
                env['target'] = sup_target

                class SuperObj:
                    def _vf_getattr(self, interp_, name):
                        return sup_target

                class Attrs:
                    def __init__(self, **kw):
                        self.kw = kw

                    def _vf_getattr(self, interp_, name):
                        if name in self.kw:
                            return self.kw[name]
                        raise PyExc(AttributeError, (name,))
                # the compiler gives a method that mentions super / __class__ a __class__ cell holding the DEFINING class;
                # the declaration may name a class of its own (cls=...), which then is the one to start the lookup after
                cell_cls, declared_cls = Opaque('the defining class (__class__ cell)'), Opaque('the class named in the declaration')
                has_cell = ctx.decide(z3.Bool('method_has_a___class___cell'))
                declared = ctx.decide(z3.Bool('declaration_names_a_class'))
                obj.defaults['__code__'] = Attrs(co_freevars=('__class__',) if has_cell else ())
                obj.defaults['__closure__'] = (Attrs(cell_contents=cell_cls),) if has_cell else None
                env.update(cell_cls=cell_cls, declared_cls=declared_cls, has_cell=has_cell, declared=declared, super_calls=[])

                def super_model(*a):
                    env['super_calls'].append(a)
                    return SuperObj()
                real_super = I.builtins['super']
                I.builtins['super'] = super_model      # only for the duration of the unit
                try:
                    harness.run_unit(I, spm.ns['forwards_to_super'], [1], [('obj', obj), ('cls', declared_cls if declared else None), ('use_varargs', False)], r)
                finally:
                    I.builtins['super'] = real_super
        elif mode == 'spec_forwards':
            spm = I.module('sigtools.specifiers')
            wrapper, wrapped = new_obj('wrapper'), new_obj('wrapped')
            env.update(wrapper=wrapper, wrapped=wrapped)
            s1, s2 = Opaque('signatures.signature(wrapper)'), Opaque('specifiers.signature(wrapped)')
            env.update(s1=s1, s2=s2, log=[])
            I.call_hooks['_signatures:signature'] = lambda i_, c, a, k: (env['log'].append(('plain', a[0])), s1)[1]
            I.call_hooks['_specifiers:forged_signature'] = lambda i_, c, a, k: (env['log'].append(('forged', a[0])), s2)[1]
            rec = env['fwd_calls'] = []

            def sfwd(interp_, clo, a, kw):
                rec.append((list(a), list(kw)))
                return Opaque('result')
            I.call_hooks['_signatures:forwards'] = sfwd
            harness.run_unit(I, spm.ns['forwards'], [wrapper, wrapped, 1, 'name'], [('hide_args', True)], r)
        elif mode == 'af_partial':
            nbound = 1 if ctx.decide(z3.Bool('partial_binds_a_positional')) else 0
            bound = tuple(Opaque('bound argument %d' % i) for i in range(nbound))
            kws = SymDict()
            if ctx.decide(z3.Bool('partial_binds_a_keyword')):
                kws.items_ = [('z', Opaque('bound keyword value'))]
            func = new_obj('partial_func')
            par = world.SymPartial(z3.Const('partial_obj', sym.RefS), func, bound, kws if ctx.decide(z3.Bool('keywords_is_a_dict')) or kws.items_ else None)
            env.update(par=par, func=func, bound=bound, kws=kws)
            inner_sig = Opaque('autoforwards(par.func, par.args, {})')
            env['inner_sig'] = inner_sig
            log = env['log'] = []

            def af(interp_, clo, a, kw):
                log.append(('autoforwards', list(a), list(kw)))
                if ctx.decide(ctx.fresh('inner_unknown', z3.BoolSort())):
                    raise PyExc(UF_cls, ())
                return inner_sig
            I.call_hooks['_autoforwards:autoforwards'] = af

            def mk(interp_, clo, a, kw):
                log.append(('_mask', list(a), list(kw)))
                # contract of _mask (C03): ValueError exactly when the signature cannot be passed the bound arguments
                if ctx.decide(ctx.fresh('mask_impossible', z3.BoolSort())):
                    raise PyExc(ValueError, ('Signature cannot be passed these arguments',))
                return Opaque('masked')
            I.call_hooks['_signatures:_mask'] = mk
            harness.run_unit(I, ma.ns['autoforwards_partial'], [par, (Opaque('outer arg'),), SymDict()], [], r)
            env['first_log'] = list(log)
            if r.outcome == 'return':
                # the same partial object asked again after what its function forwards to has changed
                env['inner_sig2'] = Opaque('autoforwards(par.func, par.args, {}) - second time')
                inner_sig_holder = env
                del log[:]

                def af2(interp_, clo, a, kw):
                    log.append(('autoforwards', list(a), list(kw)))
                    return env['inner_sig2']
                I.call_hooks['_autoforwards:autoforwards'] = af2
                r2 = harness.PathResult()
                harness.run_unit(I, ma.ns['autoforwards_partial'], [par, (), SymDict()], [], r2)
                env['second'] = (r2.outcome, list(log))
                del log[:]
                log.extend(env['first_log'])
        elif mode == 'af_method':
            recv = new_obj('receiver', 'instance')
            recv.truthy = z3.Bool('receiver_is_truthy')       # a container-like receiver may be empty
            func = new_obj('method_function')
            unbound = ctx.decide(z3.Bool('method___self___is_None'))
            meth = new_obj('bound_method', 'method')
            meth.defaults['__self__'] = None if unbound else recv
            meth.defaults['__func__'] = func
            known = (Opaque('a positional argument already known to discovery'),) if ctx.decide(z3.Bool('one_positional_argument_known')) else ()
            kws = SymDict()
            inner_sig = Opaque('autoforwards(method.__func__, (self,) + args, kwargs)')
            log = env['log'] = []
            env.update(recv=recv, func=func, unbound=unbound, known=known, kws=kws, inner_sig=inner_sig)

            def af(interp_, clo, a, kw):
                log.append(('autoforwards', list(a), list(kw)))
                if ctx.decide(ctx.fresh('inner_unknown', z3.BoolSort())):
                    raise PyExc(UF_cls, ())
                return inner_sig
            I.call_hooks['_autoforwards:autoforwards'] = af

            def mk(interp_, clo, a, kw):
                log.append(('mask', list(a), list(kw)))
                if ctx.decide(ctx.fresh('mask_impossible', z3.BoolSort())):
                    raise PyExc(ValueError, ('Signature cannot be passed 1 arguments',))
                return Opaque('masked')
            I.call_hooks['_signatures:mask'] = mk
            harness.run_unit(I, ma.ns['autoforwards_method'], [meth, known, kws], [], r)
        elif mode == 'as_forged':
            spm = I.module('sigtools.specifiers')
            inst = new_obj('instance', 'instance')
            inst.truthy = z3.Bool('instance_is_truthy')      # an instance of a user class: it may define __bool__ / __len__
            owner = new_obj('owner', 'instance')
            desc = I.instantiate(spm.ns['_AsForged'], [], [])
            # the descriptor protocol: accessed on an instance (instance, type(instance)) or on the class (None, class)
            on_class = ctx.decide(z3.Bool('accessed_on_the_class'))
            subject = owner if on_class else inst
            pre_in = z3.Bool('already_computing')
            if ctx.decide(pre_in):
                desc._d['currently_computing'].add(subject)
            env['pre_in'] = bool(subject in desc._d['currently_computing'])
            env['desc'] = desc
            env['inst'] = subject
            env['sig_asked_for'] = []

            def sig_summary(interp_, clo, args, kwpairs):
                # forged_signature by its contract: returns or raises whatever the forger / inspect raise
                env['sig_asked_for'].append(args[0] if args else None)
                may_raise(interp_, 'forged_signature')
                return Opaque('a signature')
            I.call_hooks['_specifiers:forged_signature'] = sig_summary
            f = I.getattr_(desc, '__get__')
            harness.run_unit(I, f, [None if on_class else inst, owner], [], r)
        else:
            raise EngineLimit('mode %s' % mode)
    return run, env


def vcs(env, want):
    r = env['r']
    I = env['interp']
    ctx = r.ctx
    mode = env['mode']
    out = []

    def on(c):
        return want is None or any(p in want for p in c.props)

    def origin_ok(exc, allowed):
        o = getattr(exc, 'origin', None)
        return o is not None and any(o == a or o.startswith(a) for a in allowed)

    if mode in ('af_function', 'forged'):
        c_frame = F_RESTORE if mode == 'af_function' else G_FRAME
        if on(c_frame):
            for o in env['objs']:
                out.append(VC(c_frame.full + ':' + o.label, [], o.frame_goal(), c_frame.props))
        if on(F_STRIPPED) and mode == 'af_function':
            for o, seen in env.get('own_signature_reads', []):
                # (an object that refuses attribute deletion cannot be stripped: stated for objects that allow it)
                strippable = [z3.Not(o.frozen)] if o.frozen is not None and not isinstance(o.frozen, bool) else []
                out.append(VC(F_STRIPPED.full + ':' + o.label, strippable, z3.BoolVal(not seen), F_STRIPPED.props))
        if on(F_ASTPRE):
            for n in env['ast_pre']:
                ok = getattr(n, 'cls', None) in FUNCTION_NODES or not isinstance(n, SymNode)
                out.append(VC(F_ASTPRE.full, [], z3.BoolVal(bool(ok)), F_ASTPRE.props))
    if mode == 'af_function_ua' and env.get('annotated') is not None:
        if on(F_ANN):
            from .common import ua_denotes
            EmptyAnn = I.module('sigtools._signatures').ns['EmptyAnnotation']
            ai = env['annotated']
            for s_ in env['sigs_to_discovery']:
                ps = s_._d['_parameters'].plist if isinstance(s_, Inst) and '_parameters' in s_._d else None
                if ps is None or len(ps) != len(ai.params):
                    out.append(VC(F_ANN.full + ':signature', [], z3.BoolVal(False), F_ANN.props))
                    continue
                for p, o in zip(ps, ai.params):
                    given = o._d['_annotation']
                    h, den = ua_denotes(p._d['upgraded_annotation'], EmptyAnn)
                    out.append(VC(F_ANN.full + ':%s' % o._d.get('_vf_tag', '?'), [given.has], z3.And(h, den == given.val), F_ANN.props))
        return out
    if mode == 'af_function_ua':
        if on(F_UA):
            from .common import ua_denotes
            msig = I.module('sigtools._signatures')
            EmptyAnn = msig.ns['EmptyAnnotation']
            f, info = env['f'], env['def_info']
            # stated for objects whose TYPE has no __wrapped__ of its own (functions): with one, inspect - and sigtools, which
            # unwraps by the same rule - would read the signature of whatever the type-level attribute names
            tw = f.slots['__wrapped__'].cls
            no_type_level = [z3.Not(tw)] if not isinstance(tw, bool) else ([] if not tw else [z3.BoolVal(False)])
            for s_ in env['sigs_to_discovery']:
                ps = s_._d['_parameters'].plist if isinstance(s_, Inst) and '_parameters' in s_._d else None
                if ps is None or len(ps) != len(info.params):
                    out.append(VC(F_UA.full + ':signature', [], z3.BoolVal(False), F_UA.props))
                    continue
                for p, o in zip(ps, info.params):
                    raw = o._d['_annotation']
                    h, den = ua_denotes(p._d['upgraded_annotation'], EmptyAnn)
                    exp = z3.If(f.postponed, sym.EVALIN(raw.val, f.t), raw.val)
                    out.append(VC(F_UA.full + ':%s' % o._d.get('_vf_tag', '?'), no_type_level, z3.And(h == raw.has, z3.Implies(raw.has, den == exp)), F_UA.props))
        return out
    if mode == 'af_function':
        if r.outcome == 'raise' and on(F_RAISES):
            ok = z3.Or(is_unknown_forwards(I, r.exc), z3.BoolVal(origin_ok(r.exc, ('inspect.signature', 'getattr:'))))
            out.append(VC(F_RAISES.full + ':' + r.exc.typname, [], ok, F_RAISES.props))
    elif mode == 'forged':
        if on(A_HINT):
            for fn_, node_, sig_ in env.get('ast_calls', []):
                for h in env['hints_returned']:
                    if node_ is h[1]:
                        out.append(VC(A_HINT.full, [], z3.BoolVal(fn_ is h[0] and sig_ is h[2]), A_HINT.props))
        raised = [e for e in ctx.events if e[0] == 'external-raise' and e[1] == 'forger']
        if on(G_FORGER) and raised:
            ok = r.outcome == 'raise' and r.exc is raised[0][2]
            out.append(VC(G_FORGER.full, [], z3.BoolVal(ok), G_FORGER.props))
        if r.outcome == 'raise':
            if on(G_SUBSET):
                ok = origin_ok(r.exc, ('forger', 'hint', 'inspect.signature', 'getattr:'))
                out.append(VC(G_SUBSET.full + ':' + r.exc.typname, [], z3.BoolVal(ok), G_SUBSET.props))
        else:
            ms = I.module('sigtools._signatures')
            US = ms.ns['UpgradedSignature']
            if on(G_UP):
                out.append(VC(G_UP.full, [], z3.BoolVal(isinstance(r.value, Inst) and US in r.value._cls.mro), G_UP.props))
            if on(G_USED) and env.get('forger_returned') is not None and any(e[0] == 'external-call' and e[1] == 'forger' for e in ctx.events):
                out.append(VC(G_USED.full, [], z3.BoolVal(r.value is env['forger_returned']), G_USED.props))
            if on(G_USED) and env.get('forger_returned_plain') is not None:
                # a plain signature is upgraded, keeping its parameters
                ps = env['forger_returned_plain']._d['_parameters'].plist
                qs = r.value._d['_parameters'].plist if isinstance(r.value, Inst) and '_parameters' in r.value._d else None
                ok = qs is not None and len(ps) == len(qs)
                goal = z3.BoolVal(bool(ok))
                if ok:
                    goal = z3.And(*[z3.And(Z3Ops.eq(p._d['_name'].t, q._d['_name'].t), z3.BoolVal(p._d['_kind'] == q._d['_kind']),
                                           p._d['_default'].has == q._d['_default'].has) for p, q in zip(ps, qs)])
                out.append(VC(G_USED.full + ':plain_result_upgraded', [], goal, G_USED.props))
            if on(G_PLAIN):
                # which route produced the value: the forger's, the hint's / discovery's (the summary returns the very
                # signature object it was handed), or plain retrieval
                from_forger = (env.get('forger_returned') is not None and r.value is env['forger_returned']) or env.get('forger_returned_plain') is not None
                # (a discovery result may be post-processed - mask(…, 1) for bound methods - so any successful
                # autoforwards_ast on the path counts as the discovery route)
                from_discovery = r.value is env.get('hint_sig') or bool(env.get('af_ast_returned'))
                if not from_forger and not from_discovery:
                    ok = bool(env['plain_results']) and r.value is env['plain_results'][-1]
                    out.append(VC(G_PLAIN.full, [], z3.BoolVal(ok), G_PLAIN.props))
    elif mode == 'af_ast':
        if r.outcome == 'raise' and on(A_ONLY):
            out.append(VC(A_ONLY.full + ':' + r.exc.typname, [], is_unknown_forwards(I, r.exc), A_ONLY.props))
        if r.outcome == 'return' and on(A_MERGE):
            ma_ = env['merge_args']
            ok = ma_ is not None and len(ma_) == len(env['yield_log']) and all(a is b for a, b in zip(ma_, env['yield_log'])) and len(ma_) > 0
            out.append(VC(A_MERGE.full, [], z3.BoolVal(bool(ok)), A_MERGE.props))
    elif mode == 'sphinx':
        if r.outcome == 'raise':
            if on(S_TOTAL):
                out.append(VC(S_TOTAL.full + ':' + r.exc.typname, [], z3.BoolVal(False), S_TOTAL.props))
        elif on(S_STR):
            v = r.value
            ok = isinstance(v, tuple) and len(v) == 2 and ((v[0] is env['in_sig'] and v[1] is env['in_ret']) or all(isinstance(x, (str, Opaque)) for x in v))
            out.append(VC(S_STR.full, [], z3.BoolVal(bool(ok)), S_STR.props))
    elif mode == 'recursion':
        if on(T_REC):
            for name, ok, detail in env['rec_results']:
                v = VC(T_REC.full + ':' + name, [], z3.BoolVal(ok), T_REC.props)
                out.append(v)
                env.setdefault('rec_detail', {})[v.name] = detail
    elif mode == 'fwd':
        calls = env['calls']
        if r.outcome == 'raise' and on(W_RAISE):
            t = r.exc.typ
            if getattr(t, '_vf_symbolic_exc', False):
                # only an exception of the callee's retrieval that is neither a ValueError nor a TypeError may pass through
                ok = z3.And(z3.BoolVal(getattr(r.exc, 'origin', '') == 'forged_signature(callee)'),
                            z3.Not(t.is_class(I, 'ValueError')), z3.Not(t.is_class(I, 'TypeError')))
            else:
                ok = is_unknown_forwards(I, r.exc)
            out.append(VC(W_RAISE.full + ':' + r.exc.typname, [], ok, W_RAISE.props))
        if on(W_ELEM):
            # the calls that use a star parameter, in order, up to the point where the generator stopped
            flagv = [{k: ctx.decide(v.t) for k, v in c['flags'].items()} for c in calls]
            using = [j for j, fv in enumerate(flagv) if fv['use_varargs'] or fv['use_varkwargs']]
            fw = env['fw_calls']
            ok = len(env['yielded']) <= len(using) and (r.outcome == 'raise' or len(env['yielded']) == len(using))
            ok = ok and len(fw) >= len(env['yielded'])
            for k, y in enumerate(env['yielded']):
                if not ok:
                    break
                j = using[k]
                a, kw = fw[k]
                c = calls[j]
                names = [x for x in a[3:]]
                # the number of positionals WRITTEN in the call (the callee of functools.partial is not one of them; values
                # already sitting in the wrapper's *args are not written either)
                ok = (y is kw.get('__result__') and len(a) >= 3 and a[2] == c['nargs'] and names == [kk for kk, _ in c['kw'].items_] and
                      all(kw.get(fk) is c['flags'][fk] or kw.get(fk) == flagv[j][fk] for fk in ('use_varargs', 'use_varkwargs', 'hide_args', 'hide_kwargs')) and
                      bool(kw.get('partial')) == bool(c['via_partial']))
            out.append(VC(W_ELEM.full, [], z3.BoolVal(bool(ok)), W_ELEM.props))
    elif mode in ('fwd_method', 'fwd_super'):
        c = M_BOUND if mode == 'fwd_method' else S_BOUND
        if on(c):
            obj = env['obj']
            s = obj.slots['__self__']
            bound = z3.And(obj.entry['__self__'][0] if not isinstance(obj.entry['__self__'][0], bool) else z3.BoolVal(obj.entry['__self__'][0]),
                           z3.BoolVal(s.v_inst is not None))
            rec = env['fwd_calls']
            if mode == 'fwd_super':
                # the class the super() lookup starts after: the declared one when there is one, else the defining class
                exp = env['declared_cls'] if env['declared'] else (env['cell_cls'] if env['has_cell'] else None)
                for a in env['super_calls']:
                    out.append(VC(c.full + ':super_of_the_declared_else_defining_class', [], z3.BoolVal(len(a) == 2 and a[0] is exp and a[1] is env['inst']), c.props))
            if r.outcome == 'raise' and mode == 'fwd_super' and not env['declared'] and not env['has_cell']:
                out.append(VC(c.full + ':ValueError_when_no_class_is_known', [], z3.BoolVal(r.exc.typ is ValueError), c.props))
            elif r.outcome == 'raise':
                out.append(VC(c.full + ':no_exception:' + r.exc.typname, [], z3.BoolVal(False), c.props))
            elif r.value is None:
                out.append(VC(c.full + ':None_only_when_unbound', [], z3.Not(bound), c.props))
            else:
                ok = len(rec) == 1 and len(rec[0][0]) == 3 and rec[0][0][0] is obj and rec[0][0][1] is env['target'] and rec[0][0][2] == 1 and \
                    [(k, v) for k, v in rec[0][1]] == [('use_varargs', False)]
                out.append(VC(c.full + ':forwards_called_with_the_declaration', [], z3.And(bound, z3.BoolVal(bool(ok))), c.props))
    elif mode == 'spec_forwards':
        if on(F_COMP):
            rec = env['fwd_calls']
            ok = r.outcome == 'return' and len(rec) == 1 and env['log'] == [('plain', env['wrapper']), ('forged', env['wrapped'])]
            if ok:
                a, kw = rec[0]
                ok = a[0] is env['s1'] and a[1] is env['s2'] and a[2:] == [1, 'name'] and [(k, v) for k, v in kw] == [('hide_args', True)]
            out.append(VC(F_COMP.full, [], z3.BoolVal(bool(ok)), F_COMP.props))
    elif mode == 'af_partial':
        if on(PA_COMP):
            log = env['log']
            par = env['par']
            afc = [e for e in log if e[0] == 'autoforwards']
            mkc = [e for e in log if e[0] == '_mask']
            ok = len(afc) == 1 and afc[0][1][0] is env['func'] and tuple(afc[0][1][1]) == tuple(env['bound']) and \
                (len(afc[0][1]) < 3 or (isinstance(afc[0][1][2], SymDict) and not afc[0][1][2].items_))
            if r.outcome == 'return':
                ok = ok and len(mkc) == 1
                if ok:
                    a = mkc[0][1]
                    kw_ok = (a[6] is par.keywords) if par.keywords is not None and par.keywords.items_ else (isinstance(a[6], SymDict) and not a[6].items_)
                    ok = a[0] is env['inner_sig'] and a[1] == len(env['bound']) and a[2:6] == [False, False, False, False] and kw_ok and a[7] is par
            else:
                # only UnknownForwards may surface (the inner discovery's, or bound arguments the callee cannot take),
                # and only after the inner discovery was consulted
                ok = ok and z3.is_true(z3.simplify(is_unknown_forwards(I, r.exc)))
            out.append(VC(PA_COMP.full, [], z3.BoolVal(bool(ok)), PA_COMP.props))
            if 'second' in env and r.outcome == 'return':
                oc2, log2 = env['second']
                mk2 = [e for e in log2 if e[0] == '_mask']
                ok2 = oc2 != 'return' or (len(mk2) == 1 and mk2[0][1][0] is env['inner_sig2'])
                out.append(VC(PA_COMP.full + ':asked_again_uses_the_current_discovery', [], z3.BoolVal(bool(ok2)), PA_COMP.props))
    elif mode == 'af_method':
        if on(AM_COMP):
            log = env['log']
            afc = [e for e in log if e[0] == 'autoforwards']
            mkc = [e for e in log if e[0] == 'mask']
            if env['unbound']:
                ok = r.outcome == 'raise' and z3.is_true(z3.simplify(is_unknown_forwards(I, r.exc))) and not afc
            else:
                ok = len(afc) == 1 and afc[0][1][0] is env['func'] and len(afc[0][1]) >= 2 and \
                    len(tuple(afc[0][1][1])) == 1 + len(env['known']) and tuple(afc[0][1][1])[0] is env['recv'] and \
                    all(a is b for a, b in zip(tuple(afc[0][1][1])[1:], env['known'])) and (len(afc[0][1]) < 3 or afc[0][1][2] is env['kws'])
                if r.outcome == 'return':
                    ok = ok and len(mkc) == 1 and mkc[0][1][0] is env['inner_sig'] and mkc[0][1][1] == 1
                else:
                    ok = ok and z3.is_true(z3.simplify(is_unknown_forwards(I, r.exc)))
            out.append(VC(AM_COMP.full, [], z3.BoolVal(bool(ok)), AM_COMP.props))
    elif mode == 'as_forged':
        desc, inst = env['desc'], env['inst']
        now_in = inst in desc._d['currently_computing']
        if on(D_GUARD):
            out.append(VC(D_GUARD.full, [], z3.BoolVal(bool(now_in) == env['pre_in'] and len(desc._d['currently_computing']) == int(env['pre_in'])), D_GUARD.props))
        if on(D_ATTR) and env['sig_asked_for']:
            out.append(VC(D_ATTR.full + ':signature_of_the_object_accessed', [], z3.BoolVal(all(x is inst for x in env['sig_asked_for'])), D_ATTR.props))
        if on(D_ATTR):
            own_attr_error = r.outcome == 'raise' and r.exc.typ is AttributeError
            out.append(VC(D_ATTR.full, [], z3.BoolVal(own_attr_error == env['pre_in']), D_ATTR.props))
            if r.outcome == 'raise' and not own_attr_error:
                raised = [e for e in ctx.events if e[0] == 'external-raise' and e[1] == 'forged_signature']
                out.append(VC(D_ATTR.full + ':only_what_retrieval_raised:' + r.exc.typname, [], z3.BoolVal(bool(raised) and r.exc is raised[0][2]), D_ATTR.props))
    return out


def replay_annotated(env, vc, model):
    """native witness of the annotate + discovery clause"""
    from vf.concrete import real_sigtools
    real_sigtools()
    import sigtools
    from sigtools import modifiers, specifiers

    def callee(x, y):
        return x, y

    @modifiers.annotate(a=int)
    def f(a, *args, **kwargs):
        return callee(*args, **kwargs)
    bad = []
    for how, sig in (('sigtools.signature(f)', sigtools.signature(f)), ('specifiers.signature(f, auto=False)', specifiers.signature(f, auto=False))):
        if sig.parameters['a'].annotation is not int:
            bad.append(('post:annotate_values_reach_discovery', '%s = %s for @annotate(a=int) def f(a, *args, **kwargs): return callee(*args, **kwargs)' % (how, sig)))
    return dict(status='reproduced' if bad else 'not-reproduced', op='retrieval:annotate + discovery', violated=[list(b) for b in bad])


def replay(env, vc, model):
    """tier-P obligations over symbolic objects: the counterexample is described (attribute state at entry, external
    outcomes in order); a native witness is searched by contracts.retrieval_native when one exists for the clause"""
    if env.get('annotated') is not None:
        return replay_annotated(env, vc, model)
    desc = {}
    for o in env.get('objs', []):
        st = {}
        for k, (i0, v0) in (o.entry or {}).items():
            s = o.slots.get(k)
            st[k] = dict(in_instance_dict_at_entry=_mb(model, i0), visible_on_type=_mb(model, s.cls) if s is not None else None,
                         in_instance_dict_at_exit=_mb(model, s.inst) if s is not None else False)
        desc[o.label] = st
    events = []
    for e in env['r'].ctx.events:
        if e[0] == 'external-raise':
            t = e[2].typ
            cls = class_name(t.universe[model.eval(t.term, model_completion=True).as_long()]) if getattr(t, '_vf_symbolic_exc', False) else class_name(t)
            events.append('%s raises %s' % (e[1], cls))
        elif e[0] == 'external-call':
            events.append('%s called' % e[1])
    r = env['r']
    if env['mode'] == 'recursion':
        d = env.get('rec_detail', {}).get(vc.name)
        return dict(status='reproduced', op='retrieval:recursion (native run)', program='def self_forwarding(*args, **kwargs): return self_forwarding(*args, **kwargs)',
                    violated=[['rt:cyclic_forwarding_graph_terminates', d]])
    rec = dict(status='no-replay', op='retrieval:' + env['mode'], objects=desc, external_events=events,
               outcome=(r.outcome if r.outcome != 'raise' else 'raise ' + r.exc.typname))
    try:
        from . import retrieval_native
        nat = retrieval_native.witness(env, vc, model, rec)
        if nat is not None:
            rec.update(nat)
    except ImportError:
        pass
    return rec


def recursion_cases():
    """tier R: the REAL sigtools.signature on functions whose forwarding graph is cyclic"""
    import inspect
    from vf.concrete import real_sigtools
    real_sigtools()
    import sigtools
    ns = {}
    src = ('def self_forwarding(*args, **kwargs):\n    return self_forwarding(*args, **kwargs)\n'
           'def ping(*args, **kwargs):\n    return pong(*args, **kwargs)\n'
           'def pong(*args, **kwargs):\n    return ping(*args, **kwargs)\n')
    import linecache
    fname = '<vf-recursion>'
    linecache.cache[fname] = (len(src), None, src.splitlines(True), fname)
    exec(compile(src, fname, 'exec'), ns)
    out = []
    for name in ('self_forwarding', 'ping'):
        f = ns[name]
        try:
            inspect.signature(f)
            s = sigtools.signature(f)
            out.append((name, True, 'sigtools.signature(%s) = %s' % (name, s)))
        except RecursionError:
            out.append((name, False, 'sigtools.signature(%s) raises RecursionError where inspect.signature succeeds: the recursion forged_signature -> autoforwards -> '
                        'forward_signatures -> forged_signature(callee) follows the user\'s forwarding graph, which is cyclic, and nothing guards it' % name))
        except Exception as e:
            out.append((name, False, 'sigtools.signature(%s) raises %r' % (name, e)))
    return out


def _dec_now(ctx, x):
    return x if isinstance(x, bool) else ctx.decide(x)


def _mb(model, t):
    if isinstance(t, bool):
        return t
    return z3.is_true(model.eval(t, model_completion=True))


crosscheck = None
