"""Tier R: the contracts evaluated CONCRETELY on the real functions under CPython.

Used (a) to replay solver counterexamples natively before anything is reported, (b) as the bounded stand-in
for code outside the generator's reach, (c) to validate the spec oracle against really calling functions.
Every checker returns a list of (clause_name, detail) for the clauses violated on the given concrete case.
"""
import inspect
import itertools
import warnings

from . import spec
from .spec import PyOps, PO, POK, VP, KWO, VK
from .concrete import cview, real_accepts, spec_accepts, ccall, real_sigtools, sig_str


def all_names(sigs):
    out = []
    for s in sigs:
        for n in s.parameters:
            if n not in out:
                out.append(n)
    return out


def call_shapes(names, maxn, foreign=('zz', 'yy')):
    pool = list(names) + [f for f in foreign if f not in names]
    for n in range(maxn + 1):
        for k in range(len(pool) + 1):
            for ks in itertools.combinations(pool, k):
                yield n, ks


def npos(sig):
    return len([p for p in sig.parameters.values() if p.kind in (p.POSITIONAL_ONLY, p.POSITIONAL_OR_KEYWORD)])


def params_data(sig):
    return [(p.name, int(p.kind), p.default, p.annotation) for p in sig.parameters.values()]


def is_pure(n, ks):
    return n == 0 or not ks


def check_sources_wf(sig, declares):
    """C08 V1 on a concrete result. ``declares(f, name)`` -> bool"""
    bad = []
    src = getattr(sig, 'sources', None)
    if not isinstance(src, dict) or '+depths' not in src:
        return [('sources_wf', 'no sources / no +depths')]
    names = list(sig.parameters)
    keys = [k for k in src if k != '+depths']
    for n in names:
        if n not in src:
            bad.append(('sources_wf:entry_for', n))
    for k in keys:
        if k not in names:
            bad.append(('sources_wf:key_is_parameter', k))
        lst = src[k]
        if not lst:
            bad.append(('sources_wf:nonempty', k))
        if len(set(map(id, lst))) != len(lst):
            bad.append(('sources_wf:duplicate_free', k))
        for f in lst:
            if f not in src['+depths']:
                bad.append(('sources_wf:has_depth', k))
            elif declares is not None and not declares(f, k):
                bad.append(('sources_wf:declared', '%s by %r' % (k, f)))
    return bad


def fn_declares(f, name):
    """does callable f declare a parameter called name (by its own def / inspect signature)"""
    try:
        while isinstance(f, __import__('functools').partial):
            return True     # a partial object 'declares' the keywords it binds into **kwargs
        return name in inspect.signature(f, follow_wrapped=False).parameters
    except (TypeError, ValueError):
        return True


def check_merge(sigs, outcome, maxn=None, calls=None):
    """all C01/C09/C15/C08/C10 clauses of merge on one concrete case. outcome: ('return', sig) | ('raise', exc)"""
    real_sigtools()
    from sigtools import _signatures
    bad = []
    views = [cview(s) for s in sigs]
    rc = spec.role_consistent(PyOps, views)
    aligned = all(spec.name_aligned(PyOps, a, b) for a, b in itertools.combinations(views, 2)) and spec.roles_kept(PyOps, views)
    names = all_names(sigs)
    if maxn is None:
        maxn = max(npos(s) for s in sigs) + 2
    shapes_ = list(calls) if calls is not None else list(call_shapes(names, maxn))
    if outcome[0] == 'raise':
        e = outcome[1]
        if not isinstance(e, ValueError):
            bad.append(('raises:only_ValueError:type', repr(e)))
        elif not isinstance(e, _signatures.IncompatibleSignatures) and rc:
            bad.append(('raises:only_ValueError:incompatible_on_role_consistent', repr(e)))
        if isinstance(e, _signatures.IncompatibleSignatures) and aligned:
            for n, ks in shapes_:
                if all(real_accepts(v, n, ks) for v in views):
                    bad.append(('raises:only_if_no_common_call', 'call %r accepted by all inputs' % ((n, ks),)))
                    break
        return bad
    res = outcome[1]
    rv = cview(res)
    for n, ks in shapes_:
        a = real_accepts(rv, n, ks)
        ins = all(real_accepts(v, n, ks) for v in views)
        nonc = spec.noncolliding(PyOps, rv, views, ccall(n, ks))
        if a and not ins:
            if is_pure(n, ks):
                bad.append(('post:sound_pure', 'call %r' % ((n, ks),)))
            elif rc and nonc:
                bad.append(('post:sound_mixed', 'call %r' % ((n, ks),)))
        if ins and not a and aligned and nonc:
            bad.append(('post:exact', 'call %r' % ((n, ks),)))
    if not isinstance(res, _signatures.UpgradedSignature) or not all(isinstance(p, _signatures.UpgradedParameter) for p in res.parameters.values()):
        bad.append(('post:wellformed:upgraded_with_depths', 'not upgraded'))
    funcs = []
    for s in sigs:
        for f in s.sources.get('+depths', {}):
            funcs.append(f)
    bad += [('post:' + c, d) for c, d in check_sources_wf(res, fn_declares)]
    if rc and aligned:
        for p in res.parameters.values():
            if p.kind in (p.VAR_POSITIONAL, p.VAR_KEYWORD):
                continue
            expect = []
            for s in sigs:
                for f in s.sources.get(p.name, []):
                    if f not in expect:
                        expect.append(f)
            got = res.sources.get(p.name, [])
            if set(map(id, got)) != set(map(id, expect)):
                bad.append(('post:sources_exact', '%s: %r vs %r' % (p.name, got, expect)))
    # depths: pointwise minimum
    dep = res.sources.get('+depths', {})
    for s in sigs:
        for f, d in s.sources.get('+depths', {}).items():
            if f not in dep:
                bad.append(('post:depths_min:has', repr(f)))
            else:
                m = min(s2.sources['+depths'][f] for s2 in sigs if f in s2.sources.get('+depths', {}))
                if dep[f] != m:
                    bad.append(('post:depths_min:min', '%r: %r != %r' % (f, dep[f], m)))
    return bad


def check_merge_meta(sigs, res):
    """C10 on a concrete merge result: contributors of a result parameter = the input parameters of the same
    name (valid reading when every shared name is role-consistent)"""
    bad = []
    for p in res.parameters.values():
        contrib = [s.parameters[p.name] for s in sigs if p.name in s.parameters]
        if not contrib:
            bad.append(('post:meta_optional_only_if_all:stands_for_inputs', p.name))
            continue
        if p.default is not p.empty:
            if not all(c.default is not c.empty for c in contrib):
                bad.append(('post:meta_optional_only_if_all', p.name))
            else:
                ds = [c.default for c in contrib]
                exp = ds[0] if all(d == ds[0] for d in ds) else None
                if p.default != exp:
                    bad.append(('post:meta_default_common_or_None', '%s: %r expected %r' % (p.name, p.default, exp)))
        anns = [c.annotation for c in contrib if c.annotation is not c.empty]
        exp = anns[0] if anns and all(a == anns[0] for a in anns) else p.empty
        if p.annotation != exp:
            bad.append(('post:meta_annotation_agreed', '%s: %r expected %r' % (p.name, p.annotation, exp)))
        for c in contrib:
            if not (p.kind == c.kind or (c.kind == c.POSITIONAL_OR_KEYWORD and p.kind in (p.POSITIONAL_ONLY, p.KEYWORD_ONLY))):
                bad.append(('post:meta_kind_only_restricts', p.name))
        ua = p.upgraded_annotation.source_value()
        if ua != p.annotation:
            bad.append(('post:ua_follows', '%s: %r vs %r' % (p.name, ua, p.annotation)))
    return bad


def run_real(fn, *a, **k):
    with warnings.catch_warnings():
        warnings.simplefilter('ignore')
        try:
            return ('return', fn(*a, **k))
        except Exception as e:
            return ('raise', e)


def snapshot_sig(sig):
    """deep value snapshot for frame checks"""
    return (params_data(sig), [(k, list(map(id, v)) if k != '+depths' else sorted((id(f), d) for f, d in v.items()))
                               for k, v in sig.sources.items()], id(sig.sources),
            [(id(p), id(p.sources), list(map(id, p.sources))) for p in sig.parameters.values()])
