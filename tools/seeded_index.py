#!/usr/bin/env python3
"""tools/seeded_index.py - writes seeded/INDEX.md from the meta.json files (what each seeded change needs to manifest, and what the
last mutation regression (tools/mutreg.py) recorded: exit code of the property's quick check and the obligations that failed)."""
import json, os
ROOT = os.path.dirname(os.path.dirname(os.path.abspath(__file__)))
rows = []
for sid in sorted(os.listdir(os.path.join(ROOT, 'seeded'))):
    mp = os.path.join(ROOT, 'seeded', sid, 'meta.json')
    if not os.path.exists(mp):
        continue
    m = json.load(open(mp))
    c = m.get('checks') or {}
    if m.get('obsolete'):
        c = dict(verdict='obsolete (see meta.json)')
    if not isinstance(c, dict):
        c = {}
    obl = ', '.join('`%s`' % o.replace('_signatures.', '').replace('_autoforwards.', '').replace('_specifiers.', '') for o in c.get('failed_obligations', [])[:4])
    rows.append('| %s | %s | %s | %s | %s |' % (sid, m.get('property'), (m.get('needs_to_manifest') or '').replace('|', '/')[:160], c.get('verdict', 'not run yet'), obl))
out = ['# Seeded changes', '',
       'One directory per change: `patch.diff` (applies to /repo HEAD), the demonstration (`demo_*.py`: exit 0 on the unchanged tree, non-zero with the change),',
       '`meta.json` (independent confirmation by `tools/seed_intake.py`, and the result of the last `tools/mutreg.py` run). None of these changes is ever committed to /repo.',
       'Run one: `tools/muttest.sh seeded/<id>/patch.diff quick <property>`; all: `tools/mutreg.py`.', '',
       '| seeded change | property | needs, to manifest | quick check of the property on the changed tree | obligations that fail (first four) |', '|---|---|---|---|---|'] + rows
open(os.path.join(ROOT, 'seeded', 'INDEX.md'), 'w').write('\n'.join(out) + '\n')
print(len(rows), 'seeded changes;', sum(1 for r in rows if 'violation reported' in r), 'with a violation reported at the last regression')
