"""Contracts of sigtools.support (C20).

 support.bind_callsig(sig, args, kwargs)                      tier B  (signature shape, number of positional arguments
        and number of keywords enumerated; names, defaults, argument values and the keyword NAMES symbolic - a keyword
        may name any parameter or none)
   raises:TypeError_iff_rejected   raises TypeError exactly when CPython's argument binding rejects the call
                                   (precondition: no keyword names a positional-only parameter alongside **kwargs -
                                   the exception the property itself makes); nothing else escapes
   post:mapping                    the returned mapping gives every parameter the value the binding assigns it:
                                   positional arguments in order, *args the surplus tuple, keywords by name, defaults,
                                   **kwargs the unmatched keywords
 support.sort_callsigs(sig, callsigs)                         tier B
   post:partition                  valid / invalid = the calls bind_callsig accepts (with its mapping) / rejects, order kept
 support.make_up_callsigs(sig, extra)                         tier B
   post:all_prefixes_times_subsets every positional prefix of the named parameters (+ extra) x every keyword subset of those
                                   names and the star names, nothing twice
 support.s / f / func_from_sig / read_sig                     tier R  (runtime contract on the real functions over an
        enumerated universe: regular expressions, string building and exec are outside the generator - bounded stand-in,
        never counted as proved)
   rt:roundtrip_native, rt:roundtrip_modifiers, rt:func_returns_arguments
"""
import itertools

import z3

from vf import sym, spec, harness, world
from vf.sym import MV, SymName, SymVal, SymDict, NONEVAL, PyExc, EngineLimit, NameS, ValS
from vf.spec import Z3Ops, PO, POK, VP, KWO, VK
from vf.interp import Interp, Inst
from vf.harness import VC, mk_sig, sig_view, run_unit
from .common import clause, name_term

UB = 'support.bind_callsig'
C_IFF = clause(UB, 'raises:TypeError_iff_rejected', ['C20'], 'B')
C_MAP = clause(UB, 'post:mapping', ['C20'], 'B')
C_PART = clause('support.sort_callsigs', 'post:partition', ['C20'], 'B')
C_MAKE = clause('support.make_up_callsigs', 'post:all_prefixes_times_subsets', ['C20'], 'B')
R_NATIVE = clause('support.s', 'rt:roundtrip_native', ['C20'], 'R')
R_MODS = clause('support.s', 'rt:roundtrip_modifiers', ['C20'], 'R')
R_FUNC = clause('support.f', 'rt:func_returns_arguments', ['C20'], 'R')
R_NS = clause('support.make_func', 'rt:caller_namespace_wins', ['C20'], 'R',
              'every name of the signature text resolves in the caller-supplied globals / locals, also a name the helper itself puts into the '
              'namespace of the function it builds (native spelling: no decorator is involved)')


def _call_shape(names_in, keys, nargs):
    """the CallShape (n = nargs concrete, S = the symbolic keyword names) for spec.accepts"""
    cands = [(z3.BoolVal(True), k.t) for k in keys]
    return spec.CallShape(Z3Ops, z3.IntVal(nargs), cands)


def val_term(x):
    if isinstance(x, SymVal):
        return x.t
    if isinstance(x, MV):
        return x.val
    if x is None:
        return NONEVAL
    raise EngineLimit('not a value: %r' % (x,))


def make_runner(mode, shape=None, nargs=0, nkeys=0, want=None, extra=2):
    I = Interp()
    world.install_externals(I, {})
    m = I.module('sigtools.support')
    env = {'interp': I, 'mode': mode}

    def mk_call(ctx, info, tag, nargs_, nkeys_):
        args = tuple(SymVal(z3.Const('arg%s%d' % (tag, i), ValS)) for i in range(nargs_))
        keys = [SymName(z3.Const('key%s%d' % (tag, i), NameS)) for i in range(nkeys_)]
        vals = [SymVal(z3.Const('kwval%s%d' % (tag, i), ValS)) for i in range(nkeys_)]
        if nkeys_ > 1:
            ctx.add(z3.Distinct(*[k.t for k in keys]))
        kw = SymDict()
        kw.items_ = list(zip(keys, vals))
        return args, keys, vals, kw

    def run(ctx, r):
        env['r'] = r
        if mode == 'roundtrip':
            # tier R: the REAL functions run natively over one slice of the enumerated universe
            uni = rt_universe()
            env['cases'] = [rt_case(specs, ret) for specs, ret in uni[shape[0]::shape[1]]]
            if shape[0] == 0:
                env['cases'].append(rt_namespace())
            r.outcome, r.value = 'return', None
            return
        info = mk_sig(I, ctx, 's', shape, tracked=False, annotations=False)
        env['info'] = info
        if mode == 'bind':
            args, keys, vals, kw = mk_call(ctx, info, '', nargs, nkeys)
            env.update(args=args, keys=keys, vals=vals, kw=kw)
            run_unit(I, m.ns['bind_callsig'], [info.sig, args, kw], [], r)
        elif mode == 'sort':
            calls = []
            for j, (na, nk) in enumerate(((nargs, nkeys), (max(0, nargs - 1), nkeys + 1 if nkeys < 2 else 0))):
                args, keys, vals, kw = mk_call(ctx, info, '_%d' % j, na, nk)
                calls.append((args, keys, vals, kw))
            env['calls'] = calls
            run_unit(I, m.ns['sort_callsigs'], [info.sig, [(c[0], c[3]) for c in calls]], [], r)
        elif mode == 'makeup':
            run_unit(I, m.ns['make_up_callsigs'], [info.sig], [('extra', extra)], r)
        else:
            raise EngineLimit('mode %s' % mode)
    return run, env


def _accepts(info, keys, nargs):
    return spec.accepts(Z3Ops, sig_view(info.sig), _call_shape(info.names, keys, nargs))


def _po_with_varkw(info, keys):
    """the excluded case: a keyword names a positional-only parameter and the signature has **kwargs"""
    has_vk = any(p.kind == VK for p in info.params)
    if not has_vk:
        return z3.BoolVal(False)
    po = [name_term(p) for p in info.params if p.kind == PO]
    return z3.Or(*[k.t == n for k in keys for n in po]) if po and keys else z3.BoolVal(False)


def _mapping_goal(info, assigned, args, keys, vals):
    """z3 condition: ``assigned`` (SymDict name -> value) is what CPython's binding gives"""
    if not isinstance(assigned, SymDict):
        return z3.BoolVal(False)
    pos = [p for p in info.params if p.kind in (PO, POK)]
    items = assigned.items_
    if len(items) != len(info.params) or not all(isinstance(k, SymName) for k, _ in items):
        return z3.BoolVal(False)
    kw_names = [p for p in info.params if p.kind in (POK, KWO)]

    def value_ok(p, got):
        if p.kind in (PO, POK):
            i = pos.index(p)
            if i < len(args):
                return z3.BoolVal(got is args[i])
        if p.kind == VP:
            surplus = tuple(args[len(pos):])
            return z3.BoolVal(isinstance(got, tuple) and len(got) == len(surplus) and all(a is b for a, b in zip(got, surplus)))
        if p.kind == VK:
            if not isinstance(got, SymDict):
                return z3.BoolVal(False)
            gs = [z3.BoolVal(len(got.items_) <= len(keys))]
            for k, v in zip(keys, vals):
                inside = any(kk is k and vv is v for kk, vv in got.items_)
                matched = z3.Or(*[k.t == name_term(q) for q in kw_names]) if kw_names else z3.BoolVal(False)
                gs.append(z3.BoolVal(inside) == z3.Not(matched))
            return z3.And(*gs)
        # not filled positionally: a keyword of that name, else the default
        try:
            gt = val_term(got)
        except EngineLimit:
            return z3.BoolVal(False)
        exp = p._d['_default'].val
        if p.kind in (POK, KWO):
            for k, v in reversed(list(zip(keys, vals))):
                exp = z3.If(k.t == name_term(p), v.t, exp)
        return gt == exp
    goals = [z3.Distinct(*[k.t for k, _ in items])] if len(items) > 1 else []
    for p in info.params:
        goals.append(z3.Or(*[z3.And(k.t == name_term(p), value_ok(p, v)) for k, v in items]))
    return z3.And(*goals) if goals else z3.BoolVal(True)


def vcs(env, want):
    r, I, mode = env['r'], env['interp'], env['mode']
    out = []

    def on(c):
        return want is None or any(p in want for p in c.props)
    if mode == 'roundtrip':
        for text, bad in env['cases']:
            for c in (R_NATIVE, R_MODS, R_FUNC, R_NS):
                if on(c):
                    mine = [d for n, d in bad if n == c.name]
                    v = VC(c.full + ':(' + text + ')', [], z3.BoolVal(not mine), c.props)
                    out.append(v)
                    if mine:
                        env.setdefault('details', {})[v.name] = mine[:3]
        return out
    info = env['info']
    if mode == 'bind':
        args, keys, vals = env['args'], env['keys'], env['vals']
        acc = _accepts(info, keys, len(args))
        excl = _po_with_varkw(info, keys)
        if r.outcome == 'raise':
            if on(C_IFF):
                out.append(VC(C_IFF.full + ':only_TypeError', [], z3.BoolVal(r.exc.typ is TypeError), C_IFF.props))
                out.append(VC(C_IFF.full + ':raise_implies_rejected', [z3.Not(excl)], z3.Not(acc), C_IFF.props))
        else:
            if on(C_IFF):
                out.append(VC(C_IFF.full + ':return_implies_accepted', [z3.Not(excl)], acc, C_IFF.props))
            if on(C_MAP):
                out.append(VC(C_MAP.full, [z3.Not(excl)], _mapping_goal(info, r.value, args, keys, vals), C_MAP.props))
    elif mode == 'sort':
        if not on(C_PART):
            return out
        if r.outcome == 'raise':
            out.append(VC(C_PART.full + ':no_exception', [], z3.BoolVal(False), C_PART.props))
            return out
        valid, invalid = r.value
        calls = env['calls']
        pos_v = []
        for j, (args, keys, vals, kw) in enumerate(calls):
            acc = _accepts(info, keys, len(args))
            excl = _po_with_varkw(info, keys)
            in_valid = [t for t in valid if t[0] is args and t[1] is kw]
            in_invalid = [t for t in invalid if t[0] is args and t[1] is kw]
            out.append(VC(C_PART.full + ':exactly_one_side:%d' % j, [], z3.BoolVal(len(in_valid) + len(in_invalid) == 1), C_PART.props))
            out.append(VC(C_PART.full + ':side_by_acceptance:%d' % j, [z3.Not(excl)], acc if in_valid else z3.Not(acc), C_PART.props))
            if in_valid:
                out.append(VC(C_PART.full + ':mapping:%d' % j, [z3.Not(excl)], _mapping_goal(info, in_valid[0][2], args, keys, vals), C_PART.props))
        order_ok = [calls.index(c) for c in [next(c for c in calls if c[0] is t[0] and c[3] is t[1]) for t in valid]] == \
            sorted(calls.index(c) for c in [next(c for c in calls if c[0] is t[0] and c[3] is t[1]) for t in valid])
        out.append(VC(C_PART.full + ':order_kept', [], z3.BoolVal(order_ok and len(valid) + len(invalid) == len(calls)), C_PART.props))
    elif mode == 'makeup':
        if not on(C_MAKE):
            return out
        if r.outcome == 'raise':
            out.append(VC(C_MAKE.full + ':no_exception', [], z3.BoolVal(False), C_MAKE.props))
            return out
        res = r.value
        named = [p._d['_name'] for p in info.params if p.kind in (PO, POK)] + [p._d['_name'] for p in info.params if p.kind == KWO]
        stars = [p._d['_name'] for p in info.params if p.kind in (VP, VK)]
        # the extras are the strings the function makes up; recover them from the longest positional prefix
        longest = max((a for a, _ in res), key=len, default=())
        extras = list(longest[len(named):])
        base = named + extras
        ok = len(extras) == 2 and all(isinstance(x, (str, sym.Opaque)) for x in extras) and extras[0] is not extras[1] and all(a is b for a, b in zip(longest, base))
        allk = base + stars
        exp_args = [tuple(base[:i]) for i in range(len(base) + 1)]
        exp_kw = [tuple(c) for i in range(len(allk) + 1) for c in itertools.combinations(allk, i)]
        ident = lambda t: tuple(id(x) for x in t)
        got = set()
        for a, kw in res:
            ks = tuple(k for k, _ in kw.items_) if isinstance(kw, SymDict) else None
            if ks is None or not all(k is v for k, v in kw.items_):
                ok = False
                break
            got.add((ident(a), ident(ks)))
        exp = {(ident(a), ident(k)) for a in exp_args for k in exp_kw}
        out.append(VC(C_MAKE.full, [], z3.BoolVal(bool(ok) and got == exp and len(res) == len(exp)), C_MAKE.props))
    return out


# --------------------------------------------------------------------------- native replay / cross-check (bind)
def _native_bind(env, model):
    from vf.concrete import Concretizer, real_sigtools
    real_sigtools()
    from sigtools import support
    conc = Concretizer(model)
    info = env['info']
    sig = conc.build_sig(info)
    args = tuple(100 + i for i in range(len(env['args'])))
    kw = {conc.name(k): 200 + i for i, k in enumerate(env['keys'])}
    fn = list(sig.sources['+depths'])[0]
    try:
        got = ('return', support.bind_callsig(sig, args, kw))
    except Exception as e:
        got = ('raise', e)
    try:
        real = ('return', fn(*args, **kw))
    except TypeError as e:
        real = ('raise', e)
    return sig, args, kw, got, real


def replay(env, vc, model):
    if env['mode'] == 'roundtrip':
        d = env.get('details', {}).get(vc.name)
        return dict(status='reproduced' if d else 'not-reproduced', op='support:roundtrip (native run of the real functions)', violated=d)
    if env['mode'] != 'bind':
        return dict(status='no-replay', op='support:' + env['mode'])
    sig, args, kw, got, real = _native_bind(env, model)
    import inspect
    excluded = any(k in sig.parameters and sig.parameters[k].kind == inspect.Parameter.POSITIONAL_ONLY for k in kw) and \
        any(p.kind == p.VAR_KEYWORD for p in sig.parameters.values())
    bad = []
    if not excluded:
        if got[0] != real[0]:
            bad.append(('raises:TypeError_iff_rejected', 'bind_callsig %s, CPython %s' % (got, real)))
        elif got[0] == 'raise' and not isinstance(got[1], TypeError):
            bad.append(('raises:TypeError_iff_rejected', repr(got[1])))
        elif got[0] == 'return' and got[1] != real[1]:
            bad.append(('post:mapping', '%r vs CPython %r' % (got[1], real[1])))
    key = ':'.join(vc.name.split('/', 1)[1].split(':')[:2])
    hit = [b for b in bad if b[0] == key]
    return dict(status='reproduced' if hit else ('other-violation' if bad else 'not-reproduced'), op='support:bind', signature=str(sig),
                args=list(args), kwargs=kw, violated=[list(b) for b in (hit or bad)])


def crosscheck(env, r):
    if env['mode'] != 'bind':
        return None
    s = r.ctx.solver
    if s.check() != z3.sat:
        return 'path condition not satisfiable at path end'
    sig, args, kw, got, real = _native_bind(env, s.model())
    if (r.outcome == 'raise') != (got[0] == 'raise'):
        return 'symbolic %s, native %r on %s args=%r kw=%r' % (r.outcome, got, sig, args, kw)
    if r.outcome == 'raise' and type(got[1]).__name__ != r.exc.typname:
        return 'symbolic raise %s, native %r' % (r.exc.typname, got[1])
    return None


# --------------------------------------------------------------------------- tier R: the string <-> code helpers
def rt_universe():
    """(specs, return annotation) of every signature of the tier-R universe: names a b c d e, <=1 positional-only,
    <=2 positional-or-keyword (defaults a suffix), *args or none, <=2 keyword-only (any defaults), **kwargs or none,
    annotation patterns: none / first parameter / last parameter and return"""
    import inspect
    E = inspect.Signature.empty
    out = []
    for npo in (0, 1):
        for npok in (0, 1, 2):
            npos = npo + npok
            for ndef in range(npos + 1):
                for va in (0, 1):
                    for nkwo in (0, 1, 2):
                        for kmask in range(2 ** nkwo):
                            for vk in (0, 1):
                                for ann in (0, 1, 2):
                                    names = iter('abcde')
                                    specs = []
                                    for i in range(npos):
                                        kind = PO if i < npo else POK
                                        has = i >= npos - ndef
                                        specs.append([next(names), kind, has, 10 + i, False, None])
                                    if va:
                                        specs.append(['args', VP, False, None, False, None])
                                    for j in range(nkwo):
                                        specs.append([next(names), KWO, bool(kmask >> j & 1), 20 + j, False, None])
                                    if vk:
                                        specs.append(['kwargs', VK, False, None, False, None])
                                    if not specs:
                                        continue
                                    ret = E
                                    if ann == 1:
                                        specs[0][4], specs[0][5] = True, 31
                                    elif ann == 2:
                                        specs[-1][4], specs[-1][5] = True, 32
                                        ret = 33
                                    out.append(([tuple(s) for s in specs], ret))
    return out


def _sig_data(sig, kwo_as_set=False):
    import inspect
    E = inspect.Parameter.empty
    ps = [(p.name, int(p.kind), p.default if p.default is not E else '<none>', p.annotation if p.annotation is not E else '<none>')
          for p in sig.parameters.values()]
    if kwo_as_set:
        ps = [p for p in ps if p[1] != KWO] + sorted(p for p in ps if p[1] == KWO)
    return ps, (sig.return_annotation if sig.return_annotation is not inspect.Signature.empty else '<none>')


def rt_namespace():
    """runtime contract of the namespace handling of s / f: caller-supplied names win"""
    import warnings
    from vf.concrete import real_sigtools
    real_sigtools()
    from sigtools import support
    bad = []
    with warnings.catch_warnings():
        warnings.simplefilter('ignore')
        injected = [k for k in getattr(support.f('a'), '__globals__', {}) if not k.startswith('__') and k != 'func']
        for name in injected + ['some_name_of_the_caller']:
            marker = object()
            for how in ('globals', 'locals'):
                for future in ((), ('annotations',)):
                    if future and how == 'locals':
                        continue        # CPython itself: a postponed annotation is evaluated in the function's globals, never in the locals exec() ran with
                    try:
                        sig = support.s('a: %s, b=%s' % (name, name), name, future_features=future, **{how: {name: marker}})
                        if future:
                            sig = sig.evaluated()
                        got = (sig.parameters['a'].annotation, sig.parameters['b'].default, sig.return_annotation)
                        if not all(x is marker for x in got):
                            bad.append((R_NS.name, "s('a: %s, b=%s', '%s', %s={'%s': <marker>}, future=%r): annotation / default / return annotation are %r"
                                        % (name, name, name, how, name, future, got)))
                        fn = support.f('a=%s' % name, **{how: {name: marker}})
                        res = fn()
                        if not (isinstance(res, dict) and res.get('a') is marker):
                            bad.append((R_NS.name, "f('a=%s', %s={'%s': <marker>})() = %r" % (name, how, name, res)))
                    except Exception as e:
                        bad.append((R_NS.name, 'name %r supplied through %s=: raises %r' % (name, how, e)))
    return 'caller namespace', bad


def rt_case(specs, ret):
    """the runtime contract of s / f / func_from_sig on one signature of the universe; returns [(clause, detail)]"""
    import inspect
    import warnings
    from vf.concrete import make_function, real_sigtools
    real_sigtools()
    from sigtools import support, _util
    bad = []
    twin = make_function(specs, 'twin', ret)
    exp = inspect.signature(twin)
    body, sep, rtext = str(exp).rpartition(' -> ')
    text = (body if sep else str(exp))[1:-1]
    rarg = rtext if sep else _util.UNSET
    has_po = any(k == PO for _, k, *_ in specs)
    with warnings.catch_warnings():
        warnings.simplefilter('ignore')
        for future in ((), ('annotations',)):
            # native spelling: always
            try:
                got = support.s(text, rarg, future_features=future).evaluated() if future else support.s(text, rarg)
                if _sig_data(got) != _sig_data(exp):
                    bad.append((R_NATIVE.name, 's(%r, future=%r) = %s, expected %s' % (text, future, got, exp)))
            except Exception as e:
                bad.append((R_NATIVE.name, 's(%r, future=%r) raises %r' % (text, future, e)))
        try:
            got = inspect.signature(support.func_from_sig(exp))
            if _sig_data(got) != _sig_data(exp):
                bad.append((R_NATIVE.name, 'func_from_sig(%s) = %s' % (exp, got)))
        except Exception as e:
            bad.append((R_NATIVE.name, 'func_from_sig(%s) raises %r' % (exp, e)))
        try:
            # ... and of nothing else: decorating a function it returned must not change what it returns next
            f1 = support.func_from_sig(exp)
            f1.__signature__ = inspect.Signature()
            f1._sigtools__forger = lambda obj: inspect.Signature()
            f2 = support.func_from_sig(exp)
            if f2 is f1 or _sig_data(inspect.signature(f2)) != _sig_data(exp):
                bad.append((R_NATIVE.name, 'func_from_sig(%s) after the function returned by an earlier call was decorated in place: %s' % (exp, inspect.signature(f2))))
        except Exception as e:
            bad.append((R_NATIVE.name, 'func_from_sig(%s) twice raises %r' % (exp, e)))
        if not has_po:
            for ua, up, uk in itertools.product((False, True), repeat=3):
                if not (ua or up or uk):
                    continue
                opts = dict(use_modifiers_annotate=ua, use_modifiers_posoargs=up, use_modifiers_kwoargs=uk)
                try:
                    got = support.s(text, rarg, **opts)
                    if _sig_data(got, True) != _sig_data(exp, True):
                        bad.append((R_MODS.name, 's(%r, %r) = %s, expected %s' % (text, opts, got, exp)))
                except Exception as e:
                    bad.append((R_MODS.name, 's(%r, %r) raises %r' % (text, opts, e)))
        # f: the function returns its arguments keyed by parameter name
        try:
            fn = support.f(text, rarg)
            names = [s[0] for s in specs if s[1] in (PO, POK, KWO)]
            npos = sum(1 for s in specs if s[1] in (PO, POK))
            for n in range(npos + 2):
                for ks in itertools.chain.from_iterable(itertools.combinations(names + ['zz'], i) for i in range(min(3, len(names) + 2))):
                    a, k = tuple(range(100, 100 + n)), {x: 'v_' + x for x in ks}
                    try:
                        want = ('ok', twin(*a, **k))
                    except TypeError:
                        want = ('TypeError', None)
                    try:
                        have = ('ok', fn(*a, **k))
                    except TypeError:
                        have = ('TypeError', None)
                    if want != have:
                        bad.append((R_FUNC.name, 'f(%r)(*%r, **%r) = %r, CPython twin %r' % (text, a, k, have, want)))
                        raise StopIteration
        except StopIteration:
            pass
        except Exception as e:
            bad.append((R_FUNC.name, 'f(%r) raises %r' % (text, e)))
    return text, bad
