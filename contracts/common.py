"""Shared pieces of the sidecar contracts: clause registry, the `_concile_meta` summary, views of
SortedParameters records, provenance helpers."""
import z3

from vf import sym, spec
from vf.sym import MV, SymName, SymRef, SymInt, SymDict, NONEVAL, PyExc, EngineLimit
from vf.spec import Z3Ops, P, View, PO, POK, VP, KWO, VK
from vf.interp import Inst
from vf.harness import UA, pview


class Clause:
    """a named contract clause. props: the properties it serves; tier: 'P' proved (all inputs) or
    'B' bounded-deductive (shapes enumerated, everything else symbolic)"""

    def __init__(self, unit, name, props, tier, doc='', internal=False):
        self.internal = internal    # clause on a private boundary: its counterexample is replayed through the public
        #                             entry point, where it need not be observable (then: no-failing-input-found)
        self.unit = unit
        self.name = name
        self.props = tuple(props)
        self.tier = tier
        self.doc = doc

    @property
    def full(self):
        return '%s/%s' % (self.unit, self.name)


REGISTRY = {}

# every property about the algebra quantifies over ANY signature objects, including ones that were inputs of earlier
# operations: it depends on no operation modifying (or caching state on) its inputs and on results not sharing containers
FRAME_PROPS = ['C16', 'C08', 'C01', 'C02', 'C03', 'C04', 'C09', 'C10', 'C11', 'C15', 'C19']


def clause(unit, name, props, tier, doc='', internal=False):
    c = Clause(unit, name, props, tier, doc, internal)
    REGISTRY[c.full] = c
    return c


# --------------------------------------------------------------------------- upgraded annotation choice
class UAChoice:
    """symbolic choice between upgraded-annotation tokens (result of the _concile_meta summary)"""

    def __init__(self, cases, default):
        self.cases = cases          # [(z3 cond, token)]
        self.default = default

    def __bool__(self):
        return True

    def __repr__(self):
        return 'UAChoice(%d)' % len(self.cases)


def ua_denotes(ua, empty_ann):
    """(has, denotes) of an upgraded annotation token as z3 terms"""
    if ua is empty_ann:
        return z3.BoolVal(False), NONEVAL
    if isinstance(ua, UA):
        return ua.has, ua.denotes
    if isinstance(ua, UAChoice):
        has, den = ua_denotes(ua.default, empty_ann)
        for cond, tok in reversed(ua.cases):
            h, d = ua_denotes(tok, empty_ann)
            has = z3.If(cond, h, has)
            den = z3.If(cond, d, den)
        return has, den
    if isinstance(ua, Inst):
        # an annotation wrapper built by the interpreted code: ask its REAL source_value() (eval is the
        # uninterpreted evalin(expression, function))
        I = ua._cls.interp
        v = I.call(I.getattr_(ua, 'source_value'), [], [])
        from vf.sym import EMPTY, SymVal
        if v is EMPTY:
            return z3.BoolVal(False), NONEVAL
        if isinstance(v, SymVal):
            return z3.BoolVal(True), v.t
        if isinstance(v, MV):
            return v.has, v.val
        if v is None:
            return z3.BoolVal(True), NONEVAL
    raise EngineLimit('unknown upgraded annotation %r' % (ua,))


def ua_follows_goal(p, empty_ann, cands=None):
    """C11 on one result parameter: its upgraded annotation is present iff the parameter is annotated, and then
    denotes what the annotation of a contributing input parameter (same annotation value) denotes in the globals
    of the function that defined it"""
    a = p._d['_annotation']
    h, den = ua_denotes(p._d['upgraded_annotation'], empty_ann)
    alts = []
    for s in (cands if cands is not None else stands_of(p)):
        sa = s._d['_annotation']
        sh, sden = ua_denotes(s._d['upgraded_annotation'], empty_ann)
        alts.append(z3.And(sa.has, sh, a.val == sa.val, den == sden))
    return z3.And(h == a.has, z3.Implies(a.has, z3.Or(*alts) if alts else z3.BoolVal(False)))


def ua_return_goal(res, first, empty_ann):
    """return annotation: the first signature's, with its upgraded wrapper"""
    ra, ora = res._d['_return_annotation'], first._d['_return_annotation']
    h, den = ua_denotes(res._d['upgraded_return_annotation'], empty_ann)
    oh, oden = ua_denotes(first._d['upgraded_return_annotation'], empty_ann)
    return z3.And(ra.has == ora.has, z3.Implies(ora.has, ra.val == ora.val), h == ra.has, z3.Implies(ra.has, z3.And(oh, den == oden)))


def ua_is(ua, tok, empty_ann):
    """z3 condition under which the (possibly symbolic) upgraded annotation ``ua`` IS the token ``tok``"""
    if ua is tok:
        return z3.BoolVal(True)
    if isinstance(ua, UAChoice):
        r = ua_is(ua.default, tok, empty_ann)
        for cond, t in reversed(ua.cases):
            r = z3.If(cond, ua_is(t, tok, empty_ann), r)
        return r
    return z3.BoolVal(False)


# --------------------------------------------------------------------------- _concile_meta: contract used as summary
def concile_formula(l, r):
    """the contract of _Merger._concile_meta(left, right) as a function of the operands' metadata:
    returns (default MV, annotation MV, [(cond, which)]) where which in 'left'/'right'/'empty' tells which
    upgraded annotation travels"""
    ld, rd = l._d['_default'], r._d['_default']
    la, ra = l._d['_annotation'], r._d['_annotation']
    dmv = MV(z3.And(ld.has, rd.has), z3.If(ld.val == rd.val, ld.val, NONEVAL))
    both = z3.And(la.has, ra.has)
    ahas = z3.Or(z3.And(both, la.val == ra.val), z3.And(la.has, z3.Not(ra.has)), z3.And(z3.Not(la.has), ra.has))
    amv = MV(ahas, z3.If(la.has, la.val, ra.val))
    takes_left = z3.Or(z3.And(both, la.val == ra.val), z3.And(la.has, z3.Not(ra.has)))
    takes_right = z3.And(z3.Not(la.has), ra.has)
    return dmv, amv, takes_left, takes_right


def stands_of(p):
    s = p._d.get('_vf_stands')
    return s if s is not None else [p]


def install_concile_summary(interp):
    """replace calls of _Merger._concile_meta by its contract (mode 'summarise'); the contract itself is
    discharged on the real body by the unit check `concile` (tier P)."""
    m = interp.module('sigtools._signatures')
    empty_ann = m.ns['EmptyAnnotation']

    def hook(interp_, clo, args, kwpairs):
        if len(args) != 3 or kwpairs:
            return NotImplemented
        _self, l, r = args
        if not (isinstance(l, Inst) and isinstance(r, Inst) and '_default' in l._d and '_default' in r._d):
            raise PyExc(AttributeError, ('_concile_meta on a non-parameter',))
        dmv, amv, tl, tr = concile_formula(l, r)
        ua = UAChoice([(tl, l._d['upgraded_annotation']), (tr, r._d['upgraded_annotation'])], empty_ann)
        res = interp_.call(interp_.getattr_(l, 'replace'), [],
                           [('default', dmv), ('annotation', amv), ('upgraded_annotation', ua)])
        res._d['_vf_stands'] = stands_of(l) + [x for x in stands_of(r) if x not in stands_of(l)]
        return res
    interp.call_hooks['_signatures:_Merger._concile_meta'] = hook
    return hook


# --------------------------------------------------------------------------- SortedParameters helpers
def sp_fields(sp):
    """(posargs, pokargs, varargs, kwoargs values, varkwargs, sources) of a SortedParameters-like record"""
    posargs, pokargs, varargs, kwoargs, varkwargs = sp[0], sp[1], sp[2], sp[3], sp[4]
    src = sp[5] if len(sp) > 5 else None
    kv = kwoargs.values() if hasattr(kwoargs, 'values') else list(kwoargs)
    return list(posargs), list(pokargs), varargs, list(kv), varkwargs, src


def sp_params(sp):
    po, pok, va, kwo, vk, _ = sp_fields(sp)
    out = po + pok
    if va:
        out.append(va)
    out += kwo
    if vk:
        out.append(vk)
    return out


def sp_view(sp):
    return View([pview(p) for p in sp_params(sp)])


def bucket_consistent(sp):
    """every parameter sits in the bucket of its kind (concrete: kinds are concrete)"""
    po, pok, va, kwo, vk, _ = sp_fields(sp)
    return (all(p.kind == PO for p in po) and all(p.kind == POK for p in pok) and
            (not va or va.kind == VP) and all(p.kind == KWO for p in kwo) and (not vk or vk.kind == VK))


def names_distinct_term(params):
    ns = [p._d['_name'].t for p in params if isinstance(p._d['_name'], SymName)]
    if len(ns) < 2:
        return z3.BoolVal(True)
    return z3.Distinct(*ns)


def name_term(p):
    n = p._d['_name']
    return n.t if isinstance(n, SymName) else n
