#!/usr/bin/env python3
"""tools/seed_intake.py <prop> <worktree> <seed-id> "<needs>"  - confirms a seeded change independently on scratch copies
of /repo HEAD (suite unchanged with the change, demonstration fails with it and passes without) and files it under
/verif/seeded/<seed-id>/ (patch.diff, demo, meta.json).  The worktree itself is not trusted: only patch.diff and the demo are read."""
import json, os, shutil, subprocess, sys, tempfile, re
prop, wt, sid, needs = sys.argv[1:5]
ROOT = os.path.dirname(os.path.dirname(os.path.abspath(__file__)))
dst = os.path.join(ROOT, 'seeded', sid)
os.makedirs(dst, exist_ok=True)
demo = [f for f in os.listdir(wt) if f.startswith('demo_') and f.endswith('.py')][0]
shutil.copy(os.path.join(wt, 'patch.diff'), os.path.join(dst, 'patch.diff'))
shutil.copy(os.path.join(wt, demo), os.path.join(dst, demo))
ran = []
def sh(cmd, cwd):
    r = subprocess.run(cmd, shell=True, cwd=cwd, capture_output=True, text=True)
    return r.returncode, (r.stdout + r.stderr).strip()
def copy():
    d = tempfile.mkdtemp(prefix='seed.', dir='/root/scratch')
    subprocess.check_call('git -C /repo archive HEAD | tar -x -C %s' % d, shell=True)
    return d
T = 'PYTHONPATH=%s /venv/bin/python -m pytest -q -p no:cacheprovider --timeout=900 --continue-on-collection-errors 2>&1 | tail -1'
ok = True
a = copy()
rc, out = sh('PYTHONPATH=%s /venv/bin/python %s' % (a, os.path.join(dst, demo)), a)
ran.append(dict(tree='pinned', cmd='python ' + demo, exit=rc, tail=out[-300:]))
ok &= rc == 0
rc, base = sh(T % a, a)
ran.append(dict(tree='pinned', cmd='pytest', tail=base))
b = copy()
rc, out = sh('patch -p1 -s < %s' % os.path.join(dst, 'patch.diff'), b)
ok &= rc == 0
rc, out = sh('PYTHONPATH=%s /venv/bin/python %s' % (b, os.path.join(dst, demo)), b)
ran.append(dict(tree='patched', cmd='python ' + demo, exit=rc, tail=out[-400:]))
ok &= rc != 0
rc, mut = sh(T % b, b)
ran.append(dict(tree='patched', cmd='pytest', tail=mut))
strip = lambda s: re.sub(r' in [0-9.]+s.*', '', s)
ok &= strip(base) == strip(mut) and '294 passed' in mut
shutil.rmtree(a); shutil.rmtree(b)
meta = dict(id=sid, property=prop, needs_to_manifest=needs, confirmed=bool(ok), confirmation=ran, origin='independent sub-agent given only the property text and a scratch worktree')
mp = os.path.join(dst, 'meta.json')
if os.path.exists(mp):
    old = json.load(open(mp)); meta.update({k: v for k, v in old.items() if k in ('checks',)})
json.dump(meta, open(mp, 'w'), indent=1)
print("confirmed" if ok else "NOT CONFIRMED: " + json.dumps(ran)[:1500])
