import sys, time, json, itertools
sys.path.insert(0, '/verif')
from vf import runner, harness
modname = sys.argv[1]; extra = eval(sys.argv[2]); arity = int(sys.argv[3])
maxp, maxk, maxq, maxtot = map(int, sys.argv[4:8])
shs = harness.shapes(maxp, maxk, maxq, maxtot)
combos = list(itertools.product(shs, repeat=arity))
if len(sys.argv) > 8:
    import random; random.seed(0); combos = random.sample(combos, int(sys.argv[8]))
tasks = [dict(module=modname, args=dict(shapes_=list(s), **extra)) for s in combos]
t = time.time()
res = runner.merge_results(runner.run_pool(tasks))
print('tasks', res['tasks'], 'paths', res['paths'], res['outcomes'], 'obl', res['obligations'], 'disch', res['discharged'], 'fail', len(res['failures']), 'undec', len(res['undecided']), 'limits', len(res['limits']), 'eng', len(res['engine_errors']), 'cross', res['crosschecked'], 'mism', len(res['cross_mismatch']), 'z3', round(res['z3_s'],1), 'wall', round(time.time()-t,1))
for k, v in sorted(res['by_clause'].items()): print('  ', k, v)
seen=set()
for f in res['failures']:
    k=(runner.clause_key(f['obligation']), f['replay'].get('status'))
    if k in seen: continue
    seen.add(k); print('FAIL', f['obligation'], f['task'], json.dumps(f['replay'], default=str)[:900])
for x in sorted(set(res['limits']))[:5]: print('LIMIT', x)
for x in res['engine_errors'][:3]: print('ENGINE', x)
for x in res['cross_mismatch'][:5]: print('MISMATCH', x)
