"""Contracts of sigtools._signatures.signature (plain retrieval and the functools.partial branch): C19, C08, C10, C11.

 _signatures.signature  (obj a plain function f)
   post:is_def_signature   C08/C11/C14  upgraded signature with exactly f's def parameters, every parameter sourced to [f],
                                        depth {f: 0}; each upgraded annotation denotes the annotation in f's globals
 _signatures.signature  (obj a wrapper w with w.__wrapped__ = f, as functools.wraps leaves it; mode 'wrapped')
   post:is_def_signature   C11/C08  like inspect.signature, plain retrieval reports f's parameters; they are sourced to w (the object
                                  inspected), and each upgraded annotation denotes the annotation in the globals of f - the
                                  function that DEFINED it - whatever the compilation mode of w
                                  (ASSUMPTION INSPECT-WRAPPED: inspect.signature follows __wrapped__ up to an explicit __signature__)
 _signatures.signature  (obj carries an already upgraded signature in __signature__, with or without provenance; mode 'stored':
                         inspect.signature hands back that very object)
   frame:stored_signature_unchanged  C16  retrieval does not write to the object stored on the callable (nor to its parameters,
                                          provenance map or lists); what it returns has the stored parameters
 _signatures.signature  (obj = functools.partial(f, *a, **k))
   post:partial_exact      C19  for every non-colliding call c: accepts(result, c) <=> accepts(def(f), (|a| + c.n, keys(k) u c.S))
   raises:only_if_impossible C19  ValueError => no call makes f accept (|a| + c.n, keys(k) u c.S)
   post:partial_keywords   C19/C10  a bound keyword is a keyword-only parameter whose default is the bound value; *args is gone
                                  when a keyword bound a positional-or-keyword parameter; bound positionals disappear
   post:partial_sources    C19/C08  absorbed keywords are sourced to the partial object; depth(partial) = 0, depth(f) = 1;
                                  provenance well-formed
   post:ua_follows         C11
"""
import z3

from vf import sym, spec, harness, world
from vf.sym import MV, SymName, SymRef, SymInt, SymBool, SymVal, SymDict, NONEVAL, PyExc, EngineLimit, NameS, ValS, RefS, EMPTY
from vf.spec import Z3Ops, P, View, CallShape, PO, POK, VP, KWO, VK
from vf.interp import Interp, Inst, IClass, PartialObj
from vf.harness import VC, mk_sig, mk_call, sig_view, pview
from .common import clause, name_term
from .merge import exc_is, src_entries, key_eq

U = '_signatures.signature'
C_DEF = clause(U, 'post:is_def_signature', ['C08', 'C11', 'C14'], 'B')
C_EXACT = clause(U, 'post:partial_exact', ['C19'], 'B')
C_RAISE = clause(U, 'raises:only_if_impossible', ['C19'], 'B')
C_KW = clause(U, 'post:partial_keywords', ['C19', 'C10'], 'B')
C_SRC = clause(U, 'post:partial_sources', ['C19', 'C08'], 'B')
C_UA = clause(U, 'post:ua_follows', ['C11'], 'B')
C_ONLY_VE = clause(U, 'raises:only_ValueError', ['C15'], 'B')
C_STORED = clause(U, 'frame:stored_signature_unchanged', ['C16'], 'B')


def source_value_term(I, ua):
    """(has, value) of ua.source_value() computed by the INTERPRETED method"""
    v = I.call(I.getattr_(ua, 'source_value'), [], [])
    if v is EMPTY:
        return z3.BoolVal(False), NONEVAL
    if isinstance(v, SymVal):
        return z3.BoolVal(True), v.t
    if isinstance(v, MV):
        return v.has, v.val
    if v is None:
        return z3.BoolVal(True), NONEVAL
    raise EngineLimit('source_value returned %r' % (v,))


def denotes(f, raw_mv):
    """the object an annotation of f denotes: the raw value when f is eagerly annotated, evalin(raw, globals(f))
    when f was compiled with postponed evaluation (ASSUMPTION COMPILER)"""
    return z3.If(f.postponed, world.EVALIN(raw_mv.val, f.t), raw_mv.val)


def partial_vcs(env, want):
    r = env['r']
    I = env['interp']
    ctx = r.ctx
    info = env['info']
    f = env['f']
    mode = env['mode']
    out = []

    def on(c):
        return want is None or any(p in want for p in c.props)

    m = I.module('sigtools._signatures')
    UP, US = m.ns['UpgradedParameter'], m.ns['UpgradedSignature']
    dv = sig_view(info.sig)
    if mode == 'stored':
        if on(C_STORED):
            out.append(VC(C_STORED.full, [], z3.BoolVal(not ctx.heap_writes), C_STORED.props))
            env['frame_writes'] = list(ctx.heap_writes)
            ok = r.outcome == 'return' and isinstance(r.value, Inst) and '_parameters' in r.value._d and \
                len(r.value._d['_parameters'].plist) == len(info.params) and all(a is b or a._d.get('_name') is b._d.get('_name') for a, b in zip(r.value._d['_parameters'].plist, info.params))
            out.append(VC(C_STORED.full + ':returns_the_stored_parameters', [], z3.BoolVal(bool(ok)), C_STORED.props))
        return out
    if r.outcome == 'raise':
        if on(C_ONLY_VE):
            out.append(VC(C_ONLY_VE.full + ':type', [], z3.BoolVal(exc_is(I, r.exc, 'ValueError')), C_ONLY_VE.props))
        if mode == 'partial' and on(C_RAISE) and exc_is(I, r.exc, 'ValueError'):
            keys = [k.t for k in env['keys']]
            call, ccons = mk_call(info.names + keys)
            po_names = [p.name for p in dv.params if p.kind == PO]
            not_po = [t != q for t in keys for q in po_names]
            residual = call.plus(env['n'].t, keys)
            out.append(VC(C_RAISE.full, ccons + not_po + [spec.accepts(Z3Ops, dv, residual)], z3.BoolVal(False), C_RAISE.props))
        elif mode in ('plain', 'wrapped') and on(C_DEF):
            out.append(VC(C_DEF.full + ':no_exception', [], z3.BoolVal(False), C_DEF.props))
        return out
    res = r.value
    ok_type = isinstance(res, Inst) and US in res._cls.mro
    rparams = res._d['_parameters'].plist if ok_type else []
    ok_type = ok_type and all(isinstance(p, Inst) and UP in p._cls.mro for p in rparams)
    src = res._d.get('sources') if ok_type else None
    if not ok_type or not isinstance(src, SymDict):
        out.append(VC(C_DEF.full + ':upgraded', [], z3.BoolVal(False), C_DEF.props + C_EXACT.props))
        return out
    ent, dep = src_entries(src)
    rv = sig_view(res)
    if mode in ('plain', 'wrapped'):
        owner = env.get('w', f)       # whom the parameters are attributed to: the object inspected
        if on(C_DEF):
            same = len(rparams) == len(info.params) and all(p.kind == q.kind for p, q in zip(rparams, info.params))
            goal = [z3.BoolVal(same)]
            if same:
                for p, q in zip(rparams, info.params):
                    goal.append(Z3Ops.eq(name_term(p), name_term(q)))
                    for k in ('_default', '_annotation'):
                        goal += [p._d[k].has == q._d[k].has, z3.Implies(q._d[k].has, p._d[k].val == q._d[k].val)]
            out.append(VC(C_DEF.full + ':parameters', [], z3.And(*goal), C_DEF.props))
            good = len(ent) == len(rparams) and isinstance(dep, SymDict) and len(dep.items_) == 1
            g2 = [z3.BoolVal(good)]
            if good:
                for p in rparams:
                    g2.append(z3.Or(*[z3.And(key_eq(k, name_term(p)), z3.BoolVal(len(lst) == 1), *[x.t == owner.t for x in lst]) for k, lst in ent]))
                g2.append(z3.And(dep.items_[0][0].t == owner.t, sym.zint(dep.items_[0][1]) == 0))
            out.append(VC(C_DEF.full + ':provenance', [], z3.And(*g2), C_DEF.props))
    else:
        n = env['n']
        keys = [k.t for k in env['keys']]
        vals = [v.t for v in env['vals']]
        pobj = env['partial']
        call, ccons = mk_call(info.names + keys)
        env['call'] = call
        po_names = [p.name for p in dv.params if p.kind == PO]
        not_po = [t != q for t in keys for q in po_names]
        residual = call.plus(n.t, keys)
        if on(C_EXACT):
            nonc = spec.noncolliding(Z3Ops, rv, [dv], call)
            out.append(VC(C_EXACT.full, ccons + not_po + [nonc], spec.accepts(Z3Ops, rv, call) == spec.accepts(Z3Ops, dv, residual), C_EXACT.props))
        if on(C_KW):
            for kt, vt in zip(keys, vals):
                goal = z3.Or(*[z3.And(Z3Ops.eq(name_term(p), kt), z3.BoolVal(p.kind == KWO), p._d['_default'].has, p._d['_default'].val == vt) for p in rparams])
                out.append(VC(C_KW.full + ':bound_keyword_is_kwo_with_value', not_po, goal, C_KW.props))
            # *args is gone when a keyword bound a positional-or-keyword parameter
            pok_names = [p.name for p in dv.params if p.kind == POK]
            hit_pok = z3.Or(*[kt == q for kt in keys for q in pok_names]) if keys and pok_names else z3.BoolVal(False)
            out.append(VC(C_KW.full + ':varargs_removed', [hit_pok], z3.BoolVal(not rv.V), C_KW.props))
            # every result parameter that is not a bound keyword is a def parameter with unchanged default / annotation
            ids = {id(p): i for i, p in enumerate(info.params)}
            for p in rparams:
                o = p._d.get('_vf_origin')
                is_key = z3.Or(*[Z3Ops.eq(name_term(p), kt) for kt in keys]) if keys else z3.BoolVal(False)
                if id(o) in ids:
                    goal = z3.And(Z3Ops.eq(name_term(p), name_term(o)), z3.BoolVal(p.kind == o.kind or (o.kind == POK and p.kind == KWO)),
                                  p._d['_annotation'].has == o._d['_annotation'].has,
                                  z3.Implies(o._d['_annotation'].has, p._d['_annotation'].val == o._d['_annotation'].val),
                                  z3.Or(is_key, z3.And(p._d['_default'].has == o._d['_default'].has,
                                                       z3.Implies(o._d['_default'].has, p._d['_default'].val == o._d['_default'].val))))
                else:
                    goal = is_key
                out.append(VC(C_KW.full + ':others_unchanged:%s' % p._d.get('_vf_tag', 'new'), [], goal, C_KW.props))
        if on(C_SRC):
            dep_ok = isinstance(dep, SymDict)
            out.append(VC(C_SRC.full + ':depths', [], z3.And(z3.BoolVal(dep_ok and len(dep.items_) == 2),
                          *([z3.Or(*[z3.And(dk.t == pobj.t, sym.zint(dvv) == 0) for dk, dvv in dep.items_]),
                             z3.Or(*[z3.And(dk.t == f.t, sym.zint(dvv) == 1) for dk, dvv in dep.items_])] if dep_ok else [])), C_SRC.props))
            ids = {id(p): i for i, p in enumerate(info.params)}
            for p in rparams:
                nt = name_term(p)
                from_def = id(p._d.get('_vf_origin')) in ids     # a def parameter of f, else a keyword absorbed by **kwargs
                alts = []
                for k, lst in ent:
                    lst = list(lst)
                    alts.append(z3.And(key_eq(k, nt), z3.BoolVal(len(lst) == 1),
                                       *[(x.t == f.t) if from_def else (x.t == pobj.t) for x in lst]))
                out.append(VC(C_SRC.full + ':entry:%s' % p._d.get('_vf_tag', 'new'), [], z3.Or(*alts) if alts else z3.BoolVal(False), C_SRC.props))
            for k, lst in ent:
                out.append(VC(C_SRC.full + ':key_is_parameter:%s' % (k,), [], z3.Or(*[key_eq(k, name_term(p)) for p in rparams]) if rparams else z3.BoolVal(False), C_SRC.props))
    if on(C_UA) or (mode in ('plain', 'wrapped') and on(C_DEF)):
        c = C_UA if on(C_UA) else C_DEF
        ids = {id(p): i for i, p in enumerate(info.params)}
        for p in rparams:
            o = p._d.get('_vf_origin')
            if id(o) not in ids:
                continue
            try:
                h, v = source_value_term(I, p._d['upgraded_annotation'])
            except PyExc as e:
                out.append(VC(c.full + ':ua_source_value_raises:%s' % e.typname, [], z3.BoolVal(False), c.props))
                continue
            oa = o._d['_annotation']
            out.append(VC(c.full + (':ua:%s' % p._d.get('_vf_tag', '?')), [], z3.And(h == oa.has, z3.Implies(oa.has, v == denotes(f, oa))), c.props))
        if mode in ('plain', 'wrapped'):
            try:
                h, v = source_value_term(I, res._d['upgraded_return_annotation'])
                ra = info.sig._d['_return_annotation']
                out.append(VC(c.full + ':ua:return', [], z3.And(h == ra.has, z3.Implies(ra.has, v == denotes(f, ra))), c.props))
            except PyExc as e:
                out.append(VC(c.full + ':ua_source_value_raises:%s' % e.typname, [], z3.BoolVal(False), c.props))
    return out


def make_runner(shape, nkeys=1, mode='partial', want=None):
    I = Interp()
    m = I.module('sigtools._signatures')
    env = {'interp': I, 'mode': mode}
    signature = m.ns['signature']

    def ghost_upgrade(interp_, clo, frame, oc):
        # ghost: the upgraded parameter stands for the plain one it was built from
        inst = frame.vars.get('inst')
        if oc[0] == 'return' and isinstance(oc[1], Inst) and isinstance(inst, Inst) and oc[1] is not inst:
            for k, v in inst._d.items():
                if k.startswith('_vf_') and k not in oc[1]._d:
                    oc[1]._d[k] = v
    I.boundary_hooks['_signatures:UpgradedParameter._upgrade'] = ghost_upgrade

    def run(ctx, r):
        info = mk_sig(I, ctx, 's', shape, tracked=(mode == 'stored'), annotations=(mode in ('plain', 'wrapped')))
        if mode == 'stored' and ctx.decide(z3.Bool('stored_signature_was_assembled_by_hand')):
            harness.strip_provenance(info)
        f = world.SymFunc(info.funcs[0].t if mode != 'stored' else z3.Const('f_carrier', RefS), label='f',
                          def_sig=(info.sig if mode == 'stored' else world.plain_signature(I, info)), postponed=info.funcs[0].postponed)
        env['info'], env['f'], env['r'] = info, f, r
        env.pop('w', None)
        world.install_externals(I, {})
        r.inputs = [info]
        if mode in ('plain', 'stored'):
            obj = f
        elif mode == 'wrapped':
            # what functools.wraps leaves: another function (its own globals, its own compilation mode) whose
            # __wrapped__ is f - directly or through one more wrapper
            w = world.SymFunc(z3.Const('w_outer', RefS), label='w')
            ctx.add(w.t != f.t)
            if ctx.decide(z3.Bool('two_wrappers_deep')):
                mid = world.SymFunc(z3.Const('w_mid', RefS), label='w_mid')
                ctx.add(z3.Distinct(w.t, mid.t, f.t))
                mid.attrs['__wrapped__'] = f
                w.attrs['__wrapped__'] = mid
            else:
                w.attrs['__wrapped__'] = f
            env['w'] = w
            obj = w
        else:
            nt = z3.Int('partial_n')
            ctx.add(nt >= 0)
            keys = [SymName(z3.Const('pkey%d' % i, NameS)) for i in range(nkeys)]
            vals = [SymVal(z3.Const('pval%d' % i, ValS)) for i in range(nkeys)]
            if nkeys > 1:
                ctx.add(z3.Distinct(*[k.t for k in keys]))
            kws = SymDict()
            kws.items_ = list(zip(keys, vals))
            obj = world.SymPartial(z3.Const('partial_obj', RefS), f, world.SymArgs(SymInt(nt)), kws)
            ctx.add(obj.t != f.t)
            env.update(n=SymInt(nt), keys=keys, vals=vals, partial=obj, partial_obj=obj)
        try:
            v = I.call(signature, [obj], [])
            r.outcome, r.value = 'return', v
        except PyExc as e:
            r.outcome, r.exc = 'raise', e
    return run, env


vcs = partial_vcs


def _concrete_case(env, conc):
    import functools
    from vf.concrete import make_function
    info = env['info']
    specs = conc.param_specs(info)
    ra = info.sig._d['_return_annotation']
    import inspect
    ret = conc.val(ra.val) if conc.boolean(ra.has) else inspect.Signature.empty
    fn = make_function(specs, 'f', ret, postponed_globals=conc.postponed_env(info))
    if env['mode'] == 'plain':
        return fn, fn, None, None
    if env['mode'] == 'wrapped':
        # functools.wraps wrappers with their OWN globals (the annotation names are bound to other objects there) and
        # their own compilation mode
        def wrapper_of(inner, sym_w, tag):
            post = conc.boolean(sym_w.postponed)
            g = {k: ('in the globals of the wrapper', k) for k in (conc.postponed_env(env['info']) or {})}
            src = '%sdef %s(*args, **kwargs):\n    return None\n' % ('from __future__ import annotations\n' if post else '', tag)
            exec(compile(src, '<vf-wrapper-%s>' % tag, 'exec'), g)
            return functools.update_wrapper(g[tag], inner)
        w = env['w']
        chain = []
        o = w
        while o is not env['f']:
            chain.append(o)
            o = o.attrs['__wrapped__']
        obj = fn
        for i, sw in enumerate(reversed(chain)):
            obj = wrapper_of(obj, sw, 'w%d' % i)
        return fn, obj, None, None
    n = conc.integer(env['n'])
    kw = {conc.name(k): conc.val(v) for k, v in zip(env['keys'], env['vals'])}
    return fn, functools.partial(fn, *range(100, 100 + n), **kw), n, kw


def replay(env, vc, model):
    from vf.concrete import Concretizer, sig_str, real_sigtools
    from vf import rt
    real_sigtools()
    from sigtools import _signatures
    conc = Concretizer(model)
    if env['mode'] == 'stored':
        stored = conc.build_input(env['info'])

        def carrier(*args, **kwargs):
            return None
        carrier.__signature__ = stored
        before = rt.snapshot_sig(stored)
        oc = rt.run_real(_signatures.signature, carrier)
        bad = [] if rt.snapshot_sig(stored) == before else [('frame:stored_signature_unchanged', 'the object stored in __signature__ differs after retrieval: sources now %r' % (stored.sources,))]
        return dict(op='signature', mode='stored', stored=sig_str(stored), status='reproduced' if bad else 'not-reproduced', violated=[list(b) for b in bad])
    fn, obj, n, kw = _concrete_case(env, conc)
    oc = rt.run_real(_signatures.signature, obj)
    bad = rt.check_partial(fn, obj, n, kw, oc) if env['mode'] == 'partial' else rt.check_plain_retrieval(fn, oc, owner=obj)
    short = vc.name.split('/', 1)[1]
    key = ':'.join(short.split(':')[:2])
    hit = [b for b in bad if b[0].startswith(key)]
    import inspect as _inspect
    stars = [p.name for p in _inspect.signature(fn).parameters.values() if p.kind in (p.VAR_POSITIONAL, p.VAR_KEYWORD)]
    return dict(op='signature', mode=env['mode'], function=fn._vf_src, n=n, keywords=kw, star_names=stars,
                native_outcome=sig_str(oc[1]) if oc[0] == 'return' else repr(oc[1]),
                status='reproduced' if hit else ('other-violation' if bad else 'not-reproduced'), violated=[list(b) for b in (hit or bad)[:8]])


def crosscheck(env, r):
    if env['mode'] == 'stored':
        return None
    from vf.concrete import Concretizer, real_sigtools
    from vf import rt
    real_sigtools()
    from sigtools import _signatures
    s = r.ctx.solver
    if s.check() != z3.sat:
        return 'path condition not satisfiable at path end'
    conc = Concretizer(s.model())
    fn, obj, n, kw = _concrete_case(env, conc)
    oc = rt.run_real(_signatures.signature, obj)
    desc = 'signature(%s n=%r kw=%r)' % (fn._vf_params, n, kw)
    if r.outcome == 'raise':
        if oc[0] != 'raise' or type(oc[1]).__name__ != r.exc.typname:
            return 'symbolic raise %s, native %r on %s' % (r.exc.typname, oc, desc)
        return None
    if oc[0] == 'raise':
        return 'symbolic return, native raise %r on %s' % (oc[1], desc)
    sym_ps = []
    for p in r.value._d['_parameters'].plist:
        d = p._d
        has = conc.boolean(d['_default'].has)
        sym_ps.append((conc.name(d['_name']), d['_kind'], has, conc.val(d['_default'].val) if has else None))
    real_ps = [(p.name, int(p.kind), p.default is not p.empty, p.default if p.default is not p.empty else None) for p in oc[1].parameters.values()]
    if sym_ps != real_ps:
        return 'results differ on %s: symbolic %r native %r' % (desc, sym_ps, real_ps)
    return None
