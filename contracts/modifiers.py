"""Contracts of sigtools.modifiers (C12: kwoargs / posoargs / autokwoargs - advertised signature equals call behaviour).

 modifiers._PokTranslator._prepare                       tier B (shape of the wrapped function's signature enumerated;
        its names/defaults/annotations and the NAMES selected as positional-only / keyword-only symbolic - a selected name
        may be any parameter's name, another selected name, or no parameter at all)
   raises:ValueError_iff_inadmissible   ValueError exactly for: a name selected as both kinds, a selected name that is no
                                        parameter, a positional-only request after a regular parameter, a selected star
                                        parameter / parameter of the other fixed kind; nothing else escapes
   post:advertised_rewrite              __signature__ = the original signature with exactly the selected
                                        positional-or-keyword parameters made positional-only (in place) or keyword-only
                                        (after *args and the original keyword-only ones, relative order kept); names,
                                        defaults, annotations untouched; nothing added or lost
   post:kwopos                          kwopos lists (index in the original signature, original parameter) of the converted
                                        keyword-only parameters, in order  (the class invariant __call__ relies on)
   post:sources_swapped             C08 the wrapper replaces the wrapped function in both provenance maps
 modifiers._PokTranslator.__call__  (after the real _prepare established the invariant)
   post:accepts_iff_advertised          with the CALL axiom on the wrapped function: the call goes through exactly when the
                                        advertised signature accepts it (excluded, as in the property: a keyword naming a
                                        positional-only parameter alongside **kwargs)
   post:delivery                        every parameter of the wrapped function receives the value the advertised
                                        signature's binding assigns to it
   raises:only_TypeError
 modifiers._kwoargs_start / _posoargs_end / _autokwoargs
   post:name_set                        the selection handed to _PokTranslator is exactly: the positional-or-keyword
                                        parameters from ``start`` on / up to ``end`` / with a default minus ``exceptions``;
                                        ValueError iff the anchor (resp. an exception name) is missing
   frame:arguments_unchanged            the name collections passed in are not modified (a decorator object can be reused)
"""
import z3

from vf import sym, spec, harness, world
from vf.sym import MV, SymName, SymVal, SymDict, SymSet, SymRef, NONEVAL, PyExc, EngineLimit, NameS, ValS, RefS, TList
from vf.interp import Inst as _Inst
from vf.spec import Z3Ops, PO, POK, VP, KWO, VK
from vf.interp import Interp, Inst, IClass
from vf.harness import VC, mk_sig, sig_view
from vf.objects import SymObj
from .common import clause, name_term
from .merge import src_entries, key_eq

UP_ = 'modifiers._PokTranslator._prepare'
UC_ = 'modifiers._PokTranslator.__call__'
P_RAISE = clause(UP_, 'raises:ValueError_iff_inadmissible', ['C12'], 'B')
P_ADV = clause(UP_, 'post:advertised_rewrite', ['C12'], 'B')
P_KWOPOS = clause(UP_, 'post:kwopos', ['C12'], 'B')
P_SRC = clause(UP_, 'post:sources_swapped', ['C08', 'C12'], 'B')
C_ACC = clause(UC_, 'post:accepts_iff_advertised', ['C12'], 'B')
C_DELIV = clause(UC_, 'post:delivery', ['C12'], 'B')
C_TE = clause(UC_, 'raises:only_TypeError', ['C12'], 'B')
UST = 'modifiers._PokTranslator.__init__'
S_RAISE = clause(UST, 'raises:ValueError_iff_inadmissible_in_total', ['C12'], 'B',
                 'decorating a function, then decorating the RESULT again: each step raises ValueError exactly when the selection accumulated so far '
                 '(this decorator and the ones below) is inadmissible for the innermost function; otherwise the translator advertises the rewrite for the union')
UAN = 'modifiers.annotate.__call__'
A_RAISE = clause(UAN, 'raises:ValueError_iff_unknown_parameter', ['C12', 'C11'], 'B')
A_VERB = clause(UAN, 'post:annotations_verbatim', ['C11'], 'B', 'the given values are stored as the annotations and reported verbatim by source_value()')
A_REST = clause(UAN, 'post:everything_else_untouched', ['C11', 'C12'], 'B',
                'parameters not named keep their annotation AND their upgraded wrapper; without a return annotation given, the return annotation and its wrapper are kept')
UDG = '_util.OverrideableDataDesc.__get__'
D_BIND = clause(UDG, 'post:bound_to_the_instance_accessed', ['C12'], 'P',
                'the object returned for an instance wraps the function bound to THAT instance - also when another instance that compares '
                'equal (value-based __eq__/__hash__) was accessed before; accessing the same instance again returns the cached wrapper')
N_SET = {u: clause('modifiers.' + u, 'post:name_set', ['C12'], 'B') for u in ('_kwoargs_start', '_posoargs_end', '_autokwoargs')}
N_FRAME = {u: clause('modifiers.' + u, 'frame:arguments_unchanged', ['C12'], 'B') for u in ('_kwoargs_start', '_posoargs_end', '_autokwoargs')}


class CalledFunc(SymObj):
    """the wrapped function: records how it is finally called (CALL axiom applied by the contract)"""
    __slots__ = ('calls',)

    def __init__(self, name):
        SymObj.__init__(self, name, 'function')
        self.calls = []

    def _vf_call(self, interp, args, kwpairs):
        self.calls.append((list(args), list(kwpairs)))
        return sym.Opaque('result of the wrapped function')


def _in(names, t):
    return z3.Or(*[n.t == t for n in names]) if names else z3.BoolVal(False)


def admissible_term(info, poso, kwo):
    """the property's sentence about admissible selections, as a z3 condition over the symbolic names"""
    conj = []
    for a in poso:
        for b in kwo:
            conj.append(a.t != b.t)
    pok_seen_regular = z3.BoolVal(False)
    for s in poso:
        alts = []
        for p in info.params:
            if p.kind == PO:
                alts.append(s.t == name_term(p))
        regular_before = z3.BoolVal(False)
        for p in info.params:
            if p.kind == POK:
                alts.append(z3.And(s.t == name_term(p), z3.Not(regular_before)))
                regular_before = z3.Or(regular_before, z3.Not(z3.Or(_in(poso, name_term(p)), _in(kwo, name_term(p)))))
        conj.append(z3.Or(*alts) if alts else z3.BoolVal(False))
    for s in kwo:
        alts = [s.t == name_term(p) for p in info.params if p.kind in (POK, KWO)]
        conj.append(z3.Or(*alts) if alts else z3.BoolVal(False))
    return z3.And(*conj) if conj else z3.BoolVal(True)


def make_runner(mode, shape, npos=0, nkwo=0, nargs=0, nkeys=0, want=None):
    I = Interp()
    world.install_externals(I, {})
    mm = I.module('sigtools.modifiers')
    env = {'interp': I, 'mode': mode}
    PT = mm.ns['_PokTranslator']

    def run(ctx, r):
        env['r'] = r
        env.pop('discovered', None)
        info = mk_sig(I, ctx, 's', shape)
        env['info'] = info
        func = CalledFunc('wrapped_func')
        ctx.add(func.t == info.funcs[0].t)       # the signature's provenance names this very function
        env['func'] = func

        def forged(interp_, clo, args, kwpairs):
            # contract of forged_signature(func, auto=False) for a plain function: its upgraded def-signature
            auto = dict(kwpairs).get('auto', args[1] if len(args) > 1 else True)
            if auto is False or not (shape[2] or shape[4]):
                return info.sig
            # with discovery on, a function that forwards *args / **kwargs is reported with the callee's parameters in
            # their place: the def-signature's own parameters, then one the function does not declare
            if 'discovered' not in env:
                from vf.harness import mk_param, classes
                from vf.sym import MV, TList
                _, US_, Empty_ = classes(I)
                nm = SymName(z3.Const('name_of_a_callee_parameter', NameS))
                ctx.add(z3.And(*[nm.t != n for n in info.names]))
                extra = mk_param(I, nm, POK, MV(z3.BoolVal(True), z3.Const('d_callee', sym.ValS)), MV(z3.BoolVal(False), sym.NONEVAL), Empty_,
                                 info.funcs[0], TList([info.funcs[0]]), SymDict())
                own = [p for p in info.params if p.kind in (PO, POK)]
                rest = [p for p in info.params if p.kind == KWO]
                env['discovered'] = I.instantiate(US_, [own + [extra] + rest], [])
            return env['discovered']
        I.call_hooks['_specifiers:forged_signature'] = forged
        if mode in ('prepare', 'call'):
            poso = [SymName(z3.Const('poso%d' % i, NameS)) for i in range(npos)]
            kwo = [SymName(z3.Const('kwo%d' % i, NameS)) for i in range(nkwo)]
            for group in (poso, kwo):
                if len(group) > 1:
                    ctx.add(z3.Distinct(*[x.t for x in group]))
            env['poso'], env['kwo'] = poso, kwo
            self_ = Inst(PT)
            self_._d.update(func=func, posoarg_names=SymSet(poso), kwoarg_names=SymSet(kwo))
            env['self'] = self_
            try:
                I.call(I.getattr_(self_, '_prepare'), [], [])
                env['prepared'] = ('return', None)
            except PyExc as e:
                env['prepared'] = ('raise', e)
            if mode == 'prepare' or env['prepared'][0] == 'raise':
                r.outcome = env['prepared'][0]
                r.exc = env['prepared'][1]
                return
            args = [SymVal(z3.Const('arg%d' % i, ValS)) for i in range(nargs)]
            keys = [SymName(z3.Const('key%d' % i, NameS)) for i in range(nkeys)]
            vals = [SymVal(z3.Const('kwval%d' % i, ValS)) for i in range(nkeys)]
            if nkeys > 1:
                ctx.add(z3.Distinct(*[k.t for k in keys]))
            env.update(args=args, keys=keys, vals=vals)
            try:
                r.value = I.call(self_, list(args), list(zip(keys, vals)))
                r.outcome = 'return'
            except PyExc as e:
                r.outcome, r.exc = 'raise', e
        elif mode == 'stack':
            # two decoration steps through the REAL constructor (__new__, __init__, update_wrapper, _merge_other, _prepare)
            names = {}
            for step in (1, 2):
                for kind_, cnt in (('poso', npos if step == 1 else nkwo), ('kwo', nkwo if step == 1 else npos)):
                    names[(step, kind_)] = [SymName(z3.Const('%s%d_step%d' % (kind_, i, step), NameS)) for i in range(cnt)]
                    if len(names[(step, kind_)]) > 1:
                        ctx.add(z3.Distinct(*[x.t for x in names[(step, kind_)]]))
            env['names'] = names
            env['steps'] = []
            cur = func
            for step in (1, 2):
                try:
                    cur = I.instantiate(PT, [cur], [('posoargs', tuple(names[(step, 'poso')])), ('kwoargs', tuple(names[(step, 'kwo')]))])
                    env['steps'].append(('return', cur))
                except PyExc as e:
                    env['steps'].append(('raise', e))
                    break
            last = env['steps'][-1]
            r.outcome = last[0]
            if last[0] == 'raise':
                r.exc = last[1]
            else:
                r.value = last[1]
        elif mode == 'desc_get':
            mu = I.module('sigtools._util')
            ODD = mu.ns['OverrideableDataDesc']

            class ValueObj(SymRef):
                """an instance of a class with value-based equality: a == b is symbolic even for distinct objects"""
                def _vf_value_eq(self, o):
                    if o is self:
                        return True
                    if isinstance(o, ValueObj):
                        return ctx.decide(z3.Bool('the_two_instances_compare_equal'))
                    return False

                def _vf_getattr(self, interp_, name):
                    raise PyExc(AttributeError, (name,))

            class Bound:
                """a bound method: equal to another one iff same function and the SAME instance (identity)"""
                def __init__(self, fn, inst):
                    self.fn, self.inst = fn, inst

                def _vf_eq(self, o):
                    return isinstance(o, Bound) and o.fn is self.fn and o.inst is self.inst

            class FuncType:
                def _vf_getattr(self, interp_, name):
                    if name == '__get__':
                        return lambda f, instance, owner=None: f if instance is None else Bound(f, instance)
                    raise PyExc(AttributeError, (name,))

            class Fn(SymObj):
                def _vf_type(self, interp_):
                    return FuncType()
            fn = Fn('plain_method', 'function')
            a, b = ValueObj(z3.Const('instance_a', RefS), 'a'), ValueObj(z3.Const('instance_b', RefS), 'b')
            ctx.add(a.t != b.t)
            built = env['built'] = []

            def getter(interp_, args, kwpairs):
                w = sym.Opaque('wrapper #%d' % len(built))
                built.append((args[0], dict(kwpairs), w))
                return w
            class Getter:
                def _vf_call(self, interp_, args, kwpairs):
                    return getter(interp_, args, kwpairs)
            cg = Getter()
            desc = Inst(ODD)
            desc._d.update(func=fn, insts=SymDict(), custom_getter=cg)
            env.update(desc=desc, a=a, b=b, fn=fn)
            get = I.getattr_(desc, '__get__')
            try:
                r1 = I.call(get, [a, sym.Opaque('owner')], [])
                r1b = I.call(get, [a, sym.Opaque('owner')], [])
                r2 = I.call(get, [b, sym.Opaque('owner')], [])
                r0 = I.call(get, [None, sym.Opaque('owner')], [])
                env['results'] = (r1, r1b, r2, r0)
                r.outcome, r.value = 'return', r2
            except PyExc as e:
                r.outcome, r.exc = 'raise', e
        elif mode == 'annotate':
            AN = mm.ns['annotate']
            names = [SymName(z3.Const('annotated%d' % i, NameS)) for i in range(npos)]
            vals = [SymVal(z3.Const('annotation_value%d' % i, ValS)) for i in range(npos)]
            if npos > 1:
                ctx.add(z3.Distinct(*[x.t for x in names]))
            ann = SymDict()
            ann.items_ = list(zip(names, vals))
            given_ret = bool(nkwo)
            retv = SymVal(z3.Const('given_return_annotation', ValS)) if given_ret else I.module('sigtools._util').ns['UNSET']
            self_ = Inst(AN)
            self_._d.update(ret=retv, annotations=ann, to_use=SymSet(names))
            env.update(names=names, vals=vals, given_ret=given_ret, retv=retv, self=self_)
            harness.run_unit(I, I.getattr_(self_, '__call__'), [func], [], r)
        else:
            # start= / end= / auto forms: the selection they hand to _PokTranslator
            captured = env['captured'] = []

            def translator(interp_, cls, args, kwpairs):
                captured.append((list(args), dict(kwpairs)))
                return sym.Opaque('translator')
            I.new_hooks = getattr(I, 'new_hooks', {})
            anchor = SymName(z3.Const('anchor', NameS))
            extra = [SymName(z3.Const('listed%d' % i, NameS)) for i in range(npos)]
            if len(extra) > 1:
                ctx.add(z3.Distinct(*[x.t for x in extra]))
            env['anchor'], env['extra'] = anchor, extra
            listed = TList(extra) if mode == '_autokwoargs' else tuple(extra)
            sym.mark_input(listed, 'the names passed to the decorator factory')
            env['listed'] = listed

            class FakePT:
                def _vf_call(self, interp_, args, kwpairs):
                    return translator(interp_, None, args, kwpairs)
            mm.ns['_PokTranslator'] = FakePT()

            def kwoargs_hook(interp_, clo, args, kwpairs):
                captured.append((['<kwoargs>'] + list(args), dict(kwpairs)))
                return lambda f: sym.Opaque('translator')
            if mode == '_autokwoargs':
                I.call_hooks['modifiers:kwoargs'] = kwoargs_hook
                mm.ns['kwoargs'] = type('K', (), {'_vf_call': lambda self, i_, a, k: kwoargs_hook(i_, None, a, k)})()
                harness.run_unit(I, mm.ns['_autokwoargs'], [listed, func], [], r)
            else:
                harness.run_unit(I, mm.ns[mode], [anchor, listed, func], [], r)
    return run, env


def _origin(p):
    return p._d.get('_vf_origin')


def _bound_value(params, p, args, keys, vals):
    """(defined, value term) bound to parameter ``p`` of the list ``params`` by the call (args, keys/vals): positional by
    index, else a keyword of that name, else the default"""
    pos = [q for q in params if q.kind in (PO, POK)]
    if p.kind in (PO, POK):
        i = pos.index(p)
        if i < len(args):
            a = args[i]
            return z3.BoolVal(True), (a.t if isinstance(a, SymVal) else a.val if isinstance(a, MV) else NONEVAL)
    d = p._d['_default']
    has, val = d.has, d.val
    if p.kind in (POK, KWO):
        for k, v in reversed(list(zip(keys, vals))):
            kt = k.t if isinstance(k, SymName) else None
            if kt is None:
                continue
            vt = v.t if isinstance(v, SymVal) else v.val if isinstance(v, MV) else NONEVAL
            has = z3.If(kt == name_term(p), True, has)
            val = z3.If(kt == name_term(p), vt, val)
    return has, val


def vcs(env, want):
    r, I, mode = env['r'], env['interp'], env['mode']
    info = env['info']
    out = []

    def on(c):
        return want is None or any(p in want for p in c.props)
    if mode in ('prepare', 'call'):
        poso, kwo = env['poso'], env['kwo']
        adm = admissible_term(info, poso, kwo)
        prep = env['prepared']
        if prep[0] == 'raise':
            if on(P_RAISE):
                out.append(VC(P_RAISE.full + ':only_ValueError', [], z3.BoolVal(prep[1].typ is ValueError), P_RAISE.props))
                out.append(VC(P_RAISE.full + ':raise_implies_inadmissible', [], z3.Not(adm), P_RAISE.props))
            return out
        self_ = env['self']
        adv = self_._d.get('__signature__')
        if on(P_RAISE):
            out.append(VC(P_RAISE.full + ':return_implies_admissible', [], adm, P_RAISE.props))
        if not (isinstance(adv, Inst) and '_parameters' in adv._d):
            out.append(VC(P_ADV.full + ':is_signature', [], z3.BoolVal(False), P_ADV.props))
            return out
        rps = adv._d['_parameters'].plist
        ids = {id(p): i for i, p in enumerate(info.params)}
        if mode == 'prepare':
            if on(P_ADV):
                ok = len(rps) == len(info.params) and sorted(ids.get(id(_origin(p)), -1) for p in rps) == list(range(len(info.params)))
                out.append(VC(P_ADV.full + ':same_parameters', [], z3.BoolVal(bool(ok)), P_ADV.props))
                if ok:
                    goals = []
                    for p in rps:
                        o = _origin(p)
                        nm = name_term(o)
                        sel_po = z3.And(z3.BoolVal(o.kind == POK), _in(poso, nm))
                        sel_kw = z3.And(z3.BoolVal(o.kind == POK), _in(kwo, nm))
                        goals.append(z3.BoolVal(p.kind == PO) == z3.Or(z3.BoolVal(o.kind == PO), sel_po))
                        goals.append(z3.BoolVal(p.kind == KWO) == z3.Or(z3.BoolVal(o.kind == KWO), sel_kw))
                        goals.append(z3.BoolVal(p.kind in (PO, KWO) or p.kind == o.kind))
                        same = (p._d['_name'] is o._d['_name'] and p._d['_default'] is o._d['_default'] and p._d['_annotation'] is o._d['_annotation'] and
                                p._d['upgraded_annotation'] is o._d['upgraded_annotation'])
                        goals.append(z3.BoolVal(bool(same)))
                    # order: positional part and star parameters in original order; keyword-only part = the original
                    # keyword-only parameters in order, then the converted ones in order
                    nonk = [ids[id(_origin(p))] for p in rps if p.kind != KWO]
                    orig_k = [ids[id(_origin(p))] for p in rps if p.kind == KWO and _origin(p).kind == KWO]
                    conv_k = [ids[id(_origin(p))] for p in rps if p.kind == KWO and _origin(p).kind != KWO]
                    kidx = [i for i, p in enumerate(rps) if p.kind == KWO]
                    kseq = [ids[id(_origin(rps[i]))] for i in kidx]
                    order_ok = nonk == sorted(nonk) and kseq == orig_k + conv_k and orig_k == sorted(orig_k) and conv_k == sorted(conv_k)
                    goals.append(z3.BoolVal(order_ok))
                    out.append(VC(P_ADV.full, [], z3.And(*goals), P_ADV.props))
                ra, ora = adv._d['_return_annotation'], info.sig._d['_return_annotation']
                out.append(VC(P_ADV.full + ':return_annotation', [], z3.BoolVal(ra is ora), P_ADV.props))
            if on(P_KWOPOS):
                kp = self_._d.get('kwopos')
                conv = [p for p in rps if p.kind == KWO and _origin(p).kind == POK]
                ok = isinstance(kp, list) and len(kp) == len(conv) and all(
                    isinstance(e, tuple) and len(e) == 2 and e[0] == ids.get(id(e[1])) and e[1] is _origin(c) for e, c in zip(kp, conv))
                out.append(VC(P_KWOPOS.full, [], z3.BoolVal(bool(ok)), P_KWOPOS.props))
            if on(P_SRC):
                src = adv._d.get('sources')
                ok = isinstance(src, SymDict) and not sym.input_label(src)
                goals = [z3.BoolVal(bool(ok))]
                if ok:
                    ent, dep = src_entries(src)
                    for k, lst in ent:
                        goals.append(z3.BoolVal(len(lst) == 1 and lst[0] is self_))
                    goals.append(z3.BoolVal(isinstance(dep, SymDict) and len(dep.items_) == 1 and dep.items_[0][0] is self_))
                    goals.append(z3.BoolVal(len(ent) == len(info.params)))
                out.append(VC(P_SRC.full, [], z3.And(*goals), P_SRC.props))
            return out
        # ---- __call__
        args, keys, vals = env['args'], env['keys'], env['vals']
        call = spec.CallShape(Z3Ops, z3.IntVal(len(args)), [(z3.BoolVal(True), k.t) for k in keys])
        advv = sig_view(adv)
        acc_adv = spec.accepts(Z3Ops, advv, call)
        has_vk = any(p.kind == VK for p in rps)
        po_names = [name_term(p) for p in rps if p.kind == PO]
        excl = z3.Or(*[k.t == n for k in keys for n in po_names]) if (has_vk and po_names and keys) else z3.BoolVal(False)
        func = env['func']
        if r.outcome == 'raise':
            if on(C_TE):
                out.append(VC(C_TE.full, [], z3.BoolVal(r.exc.typ is TypeError), C_TE.props))
            if on(C_ACC):
                out.append(VC(C_ACC.full + ':rejected_by_translator', [z3.Not(excl)], z3.Not(acc_adv), C_ACC.props))
            return out
        if len(func.calls) != 1:
            out.append(VC(C_ACC.full + ':calls_wrapped_once', [], z3.BoolVal(False), C_ACC.props))
            return out
        a2, kw2 = func.calls[0]
        keys2 = [k for k, _ in kw2]
        vals2 = [v for _, v in kw2]
        if not all(isinstance(k, SymName) for k in keys2):
            raise EngineLimit('concrete keyword passed on to the wrapped function')
        call2 = spec.CallShape(Z3Ops, z3.IntVal(len(a2)), [(z3.BoolVal(True), k.t) for k in keys2])
        acc_def = spec.accepts(Z3Ops, sig_view(info.sig), call2)      # CALL axiom: the wrapped function binds or raises TypeError
        if on(C_ACC):
            out.append(VC(C_ACC.full, [z3.Not(excl)], acc_adv == acc_def, C_ACC.props))
        if on(C_DELIV):
            goals = []
            for p in rps:
                o = _origin(p)
                if o.kind in (VP, VK):
                    continue
                h1, v1 = _bound_value(rps, p, args, keys, vals)
                h2, v2 = _bound_value(info.params, o, a2, keys2, vals2)
                goals.append(z3.And(h1 == h2, z3.Implies(h1, v1 == v2)))
            npos_adv = len([p for p in rps if p.kind in (PO, POK)])
            npos_def = len([p for p in info.params if p.kind in (PO, POK)])
            sur1, sur2 = list(args[npos_adv:]), list(a2[npos_def:])
            goals.append(z3.BoolVal(len(sur1) == len(sur2) and all(x is y for x, y in zip(sur1, sur2))))
            out.append(VC(C_DELIV.full, [z3.Not(excl), acc_adv], z3.And(*goals) if goals else z3.BoolVal(True), C_DELIV.props))
        return out
    if mode == 'stack':
        if not on(S_RAISE):
            return out
        names = env['names']
        acc_p, acc_k = [], []
        for step, oc in enumerate(env['steps'], 1):
            acc_p = acc_p + names[(step, 'poso')]
            acc_k = acc_k + names[(step, 'kwo')]
            adm = admissible_term(info, acc_p, acc_k)
            empty = not (names[(step, 'poso')] or names[(step, 'kwo')])
            if oc[0] == 'raise':
                out.append(VC(S_RAISE.full + ':step%d:raise_implies_inadmissible' % step, [], z3.And(z3.BoolVal(oc[1].typ is ValueError), z3.Not(adm)), S_RAISE.props))
            else:
                out.append(VC(S_RAISE.full + ':step%d:return_implies_admissible' % step, [], adm, S_RAISE.props))
                t = oc[1]
                if isinstance(t, Inst) and '__signature__' in t._d and (acc_p or acc_k) and not empty:
                    rps = t._d['__signature__']._d['_parameters'].plist
                    goals = []
                    for p in rps:
                        o = _origin(p)
                        nm = name_term(o)
                        goals.append(z3.BoolVal(p.kind == PO) == z3.Or(z3.BoolVal(o.kind == PO), z3.And(z3.BoolVal(o.kind == POK), _in(acc_p, nm))))
                        goals.append(z3.BoolVal(p.kind == KWO) == z3.Or(z3.BoolVal(o.kind == KWO), z3.And(z3.BoolVal(o.kind == POK), _in(acc_k, nm))))
                    goals.append(z3.BoolVal(t._d.get('func') is env['func']))
                    out.append(VC(S_RAISE.full + ':step%d:advertises_the_union' % step, [], z3.And(*goals), S_RAISE.props))
        return out
    if mode == 'desc_get':
        if not on(D_BIND):
            return out
        if r.outcome == 'raise':
            out.append(VC(D_BIND.full + ':no_exception:' + r.exc.typname, [], z3.BoolVal(False), D_BIND.props))
            return out
        r1, r1b, r2, r0 = env['results']
        built = env['built']
        for_b = [x for x in built if x[2] is r2]
        ok = len(for_b) == 1 and getattr(for_b[0][0], 'inst', None) is env['b'] and getattr(for_b[0][0], 'fn', None) is env['fn'] and for_b[0][1].get('original') is env['desc']
        for_a = [x for x in built if x[2] is r1]
        ok_a = len(for_a) == 1 and getattr(for_a[0][0], 'inst', None) is env['a']
        out.append(VC(D_BIND.full + ':second_instance', [], z3.BoolVal(bool(ok)), D_BIND.props))
        out.append(VC(D_BIND.full + ':first_instance_and_cache', [], z3.BoolVal(bool(ok_a) and r1b is r1 and r0 is env['desc']), D_BIND.props))
        return out
    if mode == 'annotate':
        from .common import ua_denotes
        ms = I.module('sigtools._signatures')
        EmptyAnn = ms.ns['EmptyAnnotation']
        names, vals = env['names'], env['vals']
        known = z3.And(*[z3.Or(*[n.t == name_term(p) for p in info.params]) if info.params else z3.BoolVal(False) for n in names]) if names else z3.BoolVal(True)
        if r.outcome == 'raise':
            if on(A_RAISE):
                out.append(VC(A_RAISE.full, [], z3.And(z3.BoolVal(r.exc.typ is ValueError), z3.Not(known)), A_RAISE.props))
            return out
        if on(A_RAISE):
            out.append(VC(A_RAISE.full + ':return_implies_all_known', [], known, A_RAISE.props))
        func = env['func']
        slot = func.slots.get('__signature__')
        new = slot.v_inst if slot is not None else None
        if not (isinstance(new, Inst) and '_parameters' in new._d):
            out.append(VC(A_VERB.full + ':signature_set', [], z3.BoolVal(False), A_VERB.props))
            return out
        rps = new._d['_parameters'].plist
        ok = len(rps) == len(info.params) and all(_origin(p) is o for p, o in zip(rps, info.params))
        out.append(VC(A_REST.full + ':same_parameters_in_order', [], z3.BoolVal(bool(ok)), A_REST.props))
        if not ok:
            return out
        for p, o in zip(rps, info.params):
            sel = _in(names, name_term(o))
            a = p._d['_annotation']
            h, den = ua_denotes(p._d['upgraded_annotation'], EmptyAnn)
            given = vals[0].t if vals else sym.NONEVAL
            for n, v in reversed(list(zip(names, vals))):
                given = z3.If(n.t == name_term(o), v.t, given)
            tag = ':%s' % o._d.get('_vf_tag', '?')
            if on(A_VERB) and names:
                out.append(VC(A_VERB.full + tag, [sel], z3.And(a.has, a.val == given, h, den == given), A_VERB.props))
            if on(A_REST):
                oh, oden = ua_denotes(o._d['upgraded_annotation'], EmptyAnn)
                oa = o._d['_annotation']
                keep = z3.And(a.has == oa.has, z3.Implies(oa.has, a.val == oa.val), h == oh, z3.Implies(oh, den == oden))
                same_rest = p._d['_name'] is o._d['_name'] and p._d['_kind'] == o._d['_kind'] and p._d['_default'] is o._d['_default']
                out.append(VC(A_REST.full + tag, [z3.Not(sel)], z3.And(keep, z3.BoolVal(bool(same_rest))), A_REST.props))
        ra, ora = new._d['_return_annotation'], info.sig._d['_return_annotation']
        rh, rden = ua_denotes(new._d['upgraded_return_annotation'], EmptyAnn)
        if env['given_ret']:
            if on(A_VERB):
                out.append(VC(A_VERB.full + ':return', [], z3.And(ra.has, ra.val == env['retv'].t, rh, rden == env['retv'].t), A_VERB.props))
        elif on(A_REST):
            oh, oden = ua_denotes(info.sig._d['upgraded_return_annotation'], EmptyAnn)
            out.append(VC(A_REST.full + ':return', [], z3.And(ra.has == ora.has, z3.Implies(ora.has, ra.val == ora.val), rh == oh, z3.Implies(oh, rden == oden)), A_REST.props))
        return out
    # ---- start= / end= / auto forms
    c_set, c_frame = N_SET[mode], N_FRAME[mode]
    if on(c_frame):
        out.append(VC(c_frame.full, [], z3.BoolVal(not r.ctx.heap_writes), c_frame.props))
    anchor, extra = env['anchor'], env['extra']
    poks = [p for p in info.params if p.kind == POK]
    if not on(c_set):
        return out
    if mode == '_autokwoargs':
        defaulted = [p for p in poks]
        missing = z3.Or(*[z3.Not(z3.Or(*[z3.And(e.t == name_term(p), p._d['_default'].has) for p in poks])) if poks else z3.BoolVal(True) for e in extra]) if extra else z3.BoolVal(False)
        if r.outcome == 'raise':
            out.append(VC(c_set.full + ':ValueError_iff_exception_absent', [], z3.And(z3.BoolVal(r.exc.typ is ValueError), missing), c_set.props))
            return out
        out.append(VC(c_set.full + ':return_implies_all_exceptions_present', [], z3.Not(missing), c_set.props))
        cap = [c for c in env['captured'] if c[0] and c[0][0] == '<kwoargs>']
        if len(cap) != 1:
            out.append(VC(c_set.full + ':hands_selection_to_kwoargs', [], z3.BoolVal(False), c_set.props))
            return out
        sel = cap[0][0][1:]
        goals = []
        for p in poks:
            want_in = z3.And(p._d['_default'].has, z3.Not(_in(extra, name_term(p))))
            goals.append(z3.BoolVal(any(s is p._d['_name'] for s in sel)) == want_in)
        goals.append(z3.BoolVal(all(any(s is p._d['_name'] for p in poks) for s in sel) and len(set(map(id, sel))) == len(sel)))
        out.append(VC(c_set.full, [], z3.And(*goals), c_set.props))
        return out
    found = z3.Or(*[anchor.t == name_term(p) for p in poks]) if poks else z3.BoolVal(False)
    # the anchor search stops at the first parameter that is neither positional-only nor positional-or-keyword: all POK precede it
    if r.outcome == 'raise':
        out.append(VC(c_set.full + ':ValueError_iff_anchor_absent', [], z3.And(z3.BoolVal(r.exc.typ is ValueError), z3.Not(found)), c_set.props))
        return out
    out.append(VC(c_set.full + ':return_implies_anchor_present', [], found, c_set.props))
    cap = [c for c in env['captured'] if not (c[0] and c[0][0] == '<kwoargs>')]
    if len(cap) != 1:
        out.append(VC(c_set.full + ':builds_one_translator', [], z3.BoolVal(False), c_set.props))
        return out
    cargs, ckw = cap[0]
    key = 'kwoargs' if mode == '_kwoargs_start' else 'posoargs'
    sel = ckw.get(key)
    if not isinstance(sel, SymSet) or not cargs or cargs[0] is not env['func']:
        out.append(VC(c_set.full + ':selection_is_a_set', [], z3.BoolVal(False), c_set.props))
        return out
    # the re-binding getter (used when the translator is fetched through an instance: the method is decorated again, without
    # ``self``) must redo THIS decoration: same anchor, the names the caller listed - not the set computed for this function,
    # which contains parameters (self) the bound method no longer has
    from vf.interp import PartialObj
    g = ckw.get('get')
    ok_get = isinstance(g, PartialObj) and g.func is env['interp'].module('sigtools.modifiers').ns[mode] and len(g.args) == 2 and \
        g.args[0] is env['anchor'] and g.args[1] is env['listed'] and not g.keywords.items_
    out.append(VC(c_set.full + ':rebinding_getter_redoes_the_same_decoration', [], z3.BoolVal(bool(ok_get)), c_set.props))
    members = list(sel)
    goals = []
    at_or_after = z3.BoolVal(False)
    strictly_after = z3.BoolVal(False)
    for p in poks:
        is_anchor = anchor.t == name_term(p)
        at_or_after = z3.Or(at_or_after, is_anchor)
        if mode == '_kwoargs_start':
            want_in = z3.Or(at_or_after, _in(extra, name_term(p)))
        else:
            want_in = z3.Or(z3.Not(strictly_after), _in(extra, name_term(p)))
        strictly_after = z3.Or(strictly_after, is_anchor)
        goals.append(_in(members, name_term(p)) == want_in)
    for m_ in members:
        goals.append(z3.Or(_in(extra, m_.t), *[m_.t == name_term(p) for p in poks]))
    out.append(VC(c_set.full, [], z3.And(*goals), c_set.props))
    return out


# --------------------------------------------------------------------------- native replay
def replay(env, vc, model):
    import inspect
    from vf.concrete import Concretizer, real_sigtools, make_function
    real_sigtools()
    from sigtools import modifiers, specifiers
    conc = Concretizer(model)
    info = env['info']
    specs = conc.param_specs(info)
    mode = env['mode']
    if mode == 'annotate':
        # native witness: a postponed function, annotate given parameter annotations only (or a return annotation too)
        ns = {}
        src = ('from __future__ import annotations\nclass Result: pass\nclass Item: pass\n'
               'def make(item: Item, count=1, *, flag=False) -> Result:\n    return None\n')
        exec(compile(src, '<vf-annotate>', 'exec'), ns)
        f = ns['make']
        bad = []
        try:
            g = modifiers.annotate(count=int)(f)
            sig = specifiers.signature(g)
            if sig.upgraded_return_annotation.source_value() is not ns['Result']:
                bad.append(('post:everything_else_untouched', 'return annotation of a postponed function now denotes %r, not the class Result' % (sig.upgraded_return_annotation.source_value(),)))
            if sig.parameters['item'].upgraded_annotation.source_value() is not ns['Item']:
                bad.append(('post:everything_else_untouched', 'annotation of item denotes %r' % (sig.parameters['item'].upgraded_annotation.source_value(),)))
            if sig.parameters['count'].upgraded_annotation.source_value() is not int or sig.parameters['count'].annotation is not int:
                bad.append(('post:annotations_verbatim', 'count: %r' % (sig.parameters['count'].annotation,)))
        except Exception as e:
            bad.append(('post:annotations_verbatim', 'raised %r' % (e,)))
        key = ':'.join(vc.name.split('/', 1)[1].split(':')[:2])
        hit = [b for b in bad if b[0] == key]
        return dict(status='reproduced' if hit else ('other-violation' if bad else 'no-replay'), op='modifiers:annotate', violated=[list(b) for b in (hit or bad)])
    if mode not in ('prepare', 'call'):
        return dict(status='no-replay', op='modifiers:' + mode)
    poso = [conc.name(n) for n in env['poso']]
    kwo = [conc.name(n) for n in env['kwo']]
    twin = make_function(specs, 'wrapped')
    bad = []
    try:
        deco = modifiers._PokTranslator(twin, posoargs=poso, kwoargs=kwo)
        oc = ('return', deco)
    except Exception as e:
        oc = ('raise', e)
    orig = inspect.signature(twin)
    P = inspect.Parameter
    adm = not (set(poso) & set(kwo))
    regular = False
    for p in orig.parameters.values():
        if p.kind == P.POSITIONAL_OR_KEYWORD:
            if p.name in poso and regular:
                adm = False
            if p.name not in poso and p.name not in kwo:
                regular = True
    for n in poso:
        if n not in orig.parameters or orig.parameters[n].kind not in (P.POSITIONAL_ONLY, P.POSITIONAL_OR_KEYWORD):
            adm = False
    for n in kwo:
        if n not in orig.parameters or orig.parameters[n].kind not in (P.KEYWORD_ONLY, P.POSITIONAL_OR_KEYWORD):
            adm = False
    if oc[0] == 'raise':
        if not isinstance(oc[1], ValueError) or adm:
            bad.append(('raises:ValueError_iff_inadmissible', '%r for posoargs=%r kwoargs=%r on %s' % (oc[1], poso, kwo, orig)))
    else:
        if not adm:
            bad.append(('raises:ValueError_iff_inadmissible', 'no ValueError for posoargs=%r kwoargs=%r on %s' % (poso, kwo, orig)))
        elif poso or kwo:
            adv = specifiers.signature(oc[1])
            exp_pos = [p.replace(kind=P.POSITIONAL_ONLY) if p.name in poso else p for p in orig.parameters.values()
                       if p.kind in (P.POSITIONAL_ONLY, P.POSITIONAL_OR_KEYWORD) and p.name not in kwo]
            exp_k = [p for p in orig.parameters.values() if p.kind == P.KEYWORD_ONLY] + \
                    [p.replace(kind=P.KEYWORD_ONLY) for p in orig.parameters.values() if p.kind == P.POSITIONAL_OR_KEYWORD and p.name in kwo]
            va = [p for p in orig.parameters.values() if p.kind == P.VAR_POSITIONAL]
            vk = [p for p in orig.parameters.values() if p.kind == P.VAR_KEYWORD]
            exp = inspect.Signature(exp_pos + va + exp_k + vk, return_annotation=orig.return_annotation)
            if str(adv) != str(exp):
                bad.append(('post:advertised_rewrite', 'advertised %s expected %s' % (adv, exp)))
            if mode == 'call':
                args = tuple(100 + i for i in range(len(env['args'])))
                kw = {conc.name(k): 200 + i for i, k in enumerate(env['keys'])}
                ref = make_function([(p.name, int(p.kind), p.default is not P.empty, p.default, False, None) for p in exp.parameters.values()], 'ref')
                try:
                    want = ('ok', ref(*args, **kw))
                except TypeError:
                    want = ('TypeError', None)
                try:
                    have = ('ok', oc[1](*args, **kw))
                except TypeError:
                    have = ('TypeError', None)
                excl = any(k in exp.parameters and exp.parameters[k].kind == P.POSITIONAL_ONLY for k in kw) and bool(vk)
                if not excl and want[0] != have[0]:
                    bad.append(('post:accepts_iff_advertised', 'call *%r **%r: decorated %s, advertised signature %s' % (args, kw, have[0], want[0])))
                elif not excl and want != have:
                    bad.append(('post:delivery', 'call *%r **%r: wrapped function received %r, advertised binding %r' % (args, kw, have[1], want[1])))
    key = ':'.join(vc.name.split('/', 1)[1].split(':')[:2])
    hit = [b for b in bad if b[0] == key]
    return dict(status='reproduced' if hit else ('other-violation' if bad else 'not-reproduced'), op='modifiers:' + mode, function=str(orig),
                posoargs=poso, kwoargs=kwo, violated=[list(b) for b in (hit or bad)])


def crosscheck(env, r):
    """differential check for _prepare / __call__: the real _PokTranslator on a compiled twin under one model"""
    mode = env['mode']
    if mode not in ('prepare', 'call'):
        return None
    s = r.ctx.solver
    if s.check() != z3.sat:
        return 'path condition not satisfiable at path end'
    model = s.model()
    import inspect
    from vf.concrete import Concretizer, real_sigtools, make_function
    real_sigtools()
    from sigtools import modifiers, specifiers
    conc = Concretizer(model)
    info = env['info']
    specs = conc.param_specs(info)
    poso = [conc.name(n) for n in env['poso']]
    kwo = [conc.name(n) for n in env['kwo']]
    twin = make_function(specs, 'wrapped', body='return locals()')
    try:
        # exactly what the symbolic side does: the unit under contract is _prepare on a translator whose name sets are given
        deco = object.__new__(modifiers._PokTranslator)
        deco.func = twin
        deco.posoarg_names, deco.kwoarg_names = set(poso), set(kwo)
        deco._prepare()
        nat = ('return', deco)
    except Exception as e:
        nat = ('raise', type(e).__name__)
    prep = env['prepared']
    if prep[0] == 'raise':
        return None if nat == ('raise', prep[1].typname) else '_prepare: symbolic raise %s, native %r (posoargs=%r kwoargs=%r on %s)' % (prep[1].typname, nat, poso, kwo, inspect.signature(twin))
    if nat[0] == 'raise':
        return '_prepare: symbolic return, native raise %s (posoargs=%r kwoargs=%r on %s)' % (nat[1], poso, kwo, inspect.signature(twin))
    adv = env['self']._d['__signature__']
    mine = [(conc.name(p._d['_name']), p._d['_kind']) for p in adv._d['_parameters'].plist]
    if not (poso or kwo):
        return None
    theirs = [(p.name, int(p.kind)) for p in nat[1].__signature__.parameters.values()]
    if mine != theirs:
        return '_prepare: advertised %r, native %r' % (mine, theirs)
    if mode == 'call':
        args = tuple(100 + i for i in range(len(env['args'])))
        kw = {conc.name(k): 200 + i for i, k in enumerate(env['keys'])}
        try:
            out = ('return', nat[1](*args, **kw))
        except TypeError:
            out = ('raise', 'TypeError')
        if r.outcome == 'raise':
            if out != ('raise', r.exc.typname):
                return '__call__ *%r **%r: symbolic raise %s, native %r' % (args, kw, r.exc.typname, out)
        else:
            # the interpreted translator handed (a2, kw2) to the wrapped function: the native twin binds or raises
            a2, kw2 = env['func'].calls[0]
            vmap = {id(v): 100 + i for i, v in enumerate(env['args'])}
            vmap.update({id(v): 200 + i for i, v in enumerate(env['vals'])})

            def cv(x):
                if id(x) in vmap:
                    return vmap[id(x)]
                if isinstance(x, MV):
                    return conc.val(x.val)
                return '?'
            try:
                exp = ('return', twin(*[cv(x) for x in a2], **{conc.name(k): cv(v) for k, v in kw2}))
            except TypeError:
                exp = ('raise', 'TypeError')
            if exp != out:
                return '__call__ *%r **%r: interpreted translator calls the wrapped function as %r, natively the result is %r' % (args, kw, exp, out)
    return None
