"""Verdicts, known findings, replay files and evidence JSON."""
import hashlib
import json
import os
import sys
import time

from . import runner

ROOT = os.path.dirname(os.path.dirname(os.path.abspath(__file__)))
OUT = os.environ.get('VF_OUT') or ROOT      # evidence/ and replays/ go here (self-tests on scratch copies set VF_OUT)

ASSUMPTIONS_GLOBAL = [
    'z3 5.1 / cvc5 are sound',
    "CPython's ast.parse is the parser that runs the code; the extraction drops docstrings, comments, and "
    "module-level decorators of sigtools' own functions (DECORATORS: the keyword-only rewrite of "
    "modifiers.kwoargs/autokwoargs on sigtools' own API is applied as a model)",
    'native models of list/tuple/dict/set/itertools/functools and of inspect.Parameter / inspect.Signature '
    '(transcribed from CPython 3.12 Lib/inspect.py; name validation not modelled) - cross-checked against CPython '
    'on one concrete witness per explored path',
    'integers are mathematical',
    'EQ: == on defaults, annotation values and callables is a total equivalence returning bool',
    'HASH: callables used as provenance keys are hashable consistently with ==',
    'NAMES: symbolic parameter names are identifiers different from every string literal in sigtools',
    'dict/set iteration order is insertion order; no asynchronous exceptions; single thread',
    'spec oracle `accepts` (vf/spec.py) = CPython argument binding on call shapes, validated against really '
    'calling compiled functions (setup and replay)',
    'COMPILER: an eagerly compiled function stores the annotation object, one compiled with `from __future__ import annotations` the '
    'expression, which denotes evalin(expression, globals(f)) - an uninterpreted function (evalin_at(..., epoch) after a rebinding of globals)',
    'INSPECT: inspect.signature(f) returns the def-signature of a function; it follows __wrapped__ up to an object with an explicit '
    '__signature__ (INSPECT-WRAPPED), returns a stored __signature__ object itself; inspect.unwrap as in CPython 3.12',
    'external calls (inspect.signature, inspect.getsource, ast.parse, eval, user forgers / hints / descriptors / __bool__) may raise an '
    'exception whose class is a solver variable over the classes any except clause of sigtools mentions; they have no other effect on '
    'the objects under inspection',
    'generators: a generator suspended in try/finally is closed (GeneratorExit at the yield) when the for statement that iterates the '
    'call result is left - CPython reference counting for an anonymous iterator',
    'attrs: attr.define / attr.field(default, init, factory) as a model (positional __init__ over the annotated fields)',
    'units spread over several pool tasks (harness.explore part=(i, n)) are partitions of one decision tree: disjoint, union = the tree',
]


def load_known():
    p = os.path.join(ROOT, 'known_findings.json')
    if not os.path.exists(p):
        return []
    with open(p) as f:
        return json.load(f).get('findings', [])


def match_known(prop, rec, known):
    """a failure record matches a known finding when property and obligation prefix agree and the witness
    predicate holds on the (replayed) counterexample"""
    from . import known as K
    for k in known:
        if k.get('status') != 'known':
            continue
        if k['property'] != prop:
            continue
        if not rec['obligation'].split('#')[0].startswith(k['obligation']):
            continue
        pred = getattr(K, k['witness'], None)
        if pred is None:
            continue
        try:
            if pred(rec):
                return k
        except Exception:
            continue
    return None


def write_replay(prop, rec):
    d = os.path.join(OUT, 'replays', prop)
    os.makedirs(d, exist_ok=True)
    blob = json.dumps(rec, sort_keys=True, default=str)
    h = hashlib.sha256(blob.encode()).hexdigest()[:16]
    p = os.path.join(d, h + '.json')
    with open(p, 'w') as f:
        json.dump(rec, f, indent=1, default=str, sort_keys=True)
    return p


def source_hashes(modules):
    from .interp import source_index
    idx = source_index()
    out = {}
    for m in modules:
        try:
            idx.load(m)
            out[m.replace('.', '/') + '.py'] = idx.hashes[m]
        except Exception as e:      # pragma: no cover
            out[m] = 'unreadable: %s' % e
    return out


def decide(prop, agg, clauses_meta, known):
    """classify the aggregated result. returns dict(exit, lines, violations, known_hits, ...)"""
    lines = []
    exit_code = 0
    viol = []
    hits = {}
    checker_errors = list(agg['engine_errors'])
    for mm in agg['cross_mismatch']:
        checker_errors.append('generator/CPython mismatch: %s' % (mm,))
    # group failures by (clause key, task) so that one defect is one report
    groups = {}
    for f in agg['failures']:
        if prop not in f.get('props', [prop]):
            continue
        key = (runner.clause_key(f['obligation']), json.dumps(f['task'], sort_keys=True, default=str))
        groups.setdefault(key, []).append(f)
    undecided = list(agg['undecided'])
    for (ckey, _), fs in sorted(groups.items()):
        primary = None
        for f in fs:
            st = f.get('replay', {}).get('status')
            if st in ('reproduced', 'other-violation'):
                primary = f
                break
        if primary is None:
            primary = fs[0]
        st = primary.get('replay', {}).get('status', 'no-replay')
        k = match_known(prop, primary, known)
        if k is not None:
            hits.setdefault(k['id'], [k, 0])[1] += len(fs)
            continue
        meta = clauses_meta.get(ckey, {})
        if st in ('reproduced', 'other-violation'):
            viol.append((primary, ''))
        elif st == 'not-reproduced' and meta.get('observable', True):
            checker_errors.append('obligation %s failed in the solver but its counterexample satisfies the clause '
                                  'natively: %s' % (primary['obligation'], json.dumps(primary.get('replay'), default=str)[:600]))
        elif st == 'replay-error':
            checker_errors.append('replay crashed for %s: %s' % (primary['obligation'], primary['replay'].get('error')))
        else:
            viol.append((primary, ' no-failing-input-found'))
    for kid, (k, n) in sorted(hits.items()):
        lines.append('KNOWN-FINDING: property=%s %s [%s; %d failed obligations]' % (prop, k['what'], k['obligation'], n))
    seen_files = set()
    for rec, suffix in viol:
        path = write_replay(prop, rec)
        if path in seen_files:
            continue
        seen_files.add(path)
        if len(seen_files) > 12:
            continue        # every violation has its replay file; the report lists the first dozen
        lines.append('VIOLATION property=%s replay=%s%s' % (prop, path, suffix))
        lines.append('  obligation %s %s' % (rec['obligation'], json.dumps(rec.get('replay', {}), default=str)[:500]))
    if len(seen_files) > 12:
        lines.append('  ... and %d more violated (obligation, input shape) pairs, replay files next to the ones above' % (len(seen_files) - 12))
    if viol:
        exit_code = 1
    elif checker_errors:
        exit_code = 3
    elif undecided or agg['limits']:
        exit_code = 2
    for e in checker_errors[:5]:
        lines.append('CHECKER-ERROR property=%s %s' % (prop, str(e)[:1500]))
    if exit_code == 2:
        for u in undecided[:5]:
            lines.append('UNDECIDED property=%s obligation=%s reason=%s' % (prop, u['obligation'], u['reason']))
        for l in sorted(set(agg['limits']))[:8]:
            lines.append('UNDECIDED property=%s engine-limit: %s' % (prop, l))
    return dict(exit=exit_code, lines=lines, violations=len(seen_files), known_hits={k: v[1] for k, v in hits.items()},
                checker_errors=checker_errors, undecided=len(undecided) + len(agg['limits']))


def write_evidence(prop, tier, seed, level, agg, verdict, extra, wall_s):
    os.makedirs(os.path.join(OUT, 'evidence'), exist_ok=True)
    by_clause = {k: dict(obligations=v[0], discharged=v[1]) for k, v in sorted(agg['by_clause'].items())}
    cov = dict(
        obligations=agg['obligations'],
        discharged=agg['discharged'],
        obligations_failed=len(agg['failures']),
        obligations_failed_known_findings=sum(verdict['known_hits'].values()),
        undecided=verdict['undecided'],
        by_clause=by_clause,
        paths=agg['paths'],
        path_outcomes=agg['outcomes'],
        tasks=agg.get('tasks', 0),
        evaluations=agg['paths'],
        distinct_nontrivial=agg['nontrivial_paths'],
        rule='one evaluation = one feasible symbolic path of the interpreted real function for one input shape '
             '(decision-prefix replay, each path condition distinct by construction); non-trivial = the path '
             'condition contains at least one symbolic branch decision',
        samples=agg['samples'][:4],
        backend=dict(z3_queries=agg['z3_queries'], z3_s=round(agg['z3_s'], 2), cvc5_queries=agg['cvc5_queries'],
                     cvc5_s=round(agg['cvc5_s'], 2), feasibility_queries=agg['solver_calls']),
        paths_cross_checked_against_cpython=agg['crosschecked'],
        cross_check_mismatches=len(agg['cross_mismatch']),
        functions_interpreted=agg['units_entered'],
        checker_cmd='./vcheck run %s --tier %s' % (prop, tier),
        trusted_base=ASSUMPTIONS_GLOBAL[:3] + ['vf/ engine (interpreter, models, spec)'],
    )
    cov.update(extra or {})
    ev = dict(property_id=prop, tier=tier, seed=seed, level=level, coverage=cov,
              assumptions=ASSUMPTIONS_GLOBAL + list((extra or {}).get('assumptions_extra', [])),
              wall_s=round(wall_s, 2), violations=verdict['violations'])
    cov.pop('assumptions_extra', None)
    p = os.path.join(OUT, 'evidence', prop + '.json')
    with open(p, 'w') as f:
        json.dump(ev, f, indent=1, default=str)
    return p
