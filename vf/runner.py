"""Task runner: explores every path of a unit for each task (shape tuple), discharges the clauses, replays
counterexamples natively, cross-checks every path against CPython, aggregates across a process pool."""
import hashlib
import importlib
import json
import multiprocessing
import os
import sys
import time
import traceback

import z3

from . import sym, harness
from .sym import EngineLimit, EngineError, PyExc
from .harness import explore, discharge


class TaskResult(dict):
    pass


def new_result(task):
    return dict(task=task, paths=0, outcomes={}, obligations=0, discharged=0, trivial=0, by_clause={}, failures=[],
                undecided=[], limits=[], engine_errors=[], z3_s=0.0, cvc5_s=0.0, z3_queries=0, cvc5_queries=0,
                solver_calls=0, crosschecked=0, cross_mismatch=[], samples=[], wall_s=0.0, nontrivial_paths=0,
                units_entered=[], exc_types={}, summaries_used=[], externals_used=[])


def run_task(task):
    """task: dict(module='contracts.merge', fn='task', args={...}). The contracts module provides
    make_runner(**args) -> (run, env); vcs(env, want) -> [VC]; replay(env, vc, model) -> dict;
    crosscheck(env, r) -> None | mismatch description."""
    t0 = time.time()
    res = new_result(task)
    try:
        mod = importlib.import_module(task['module'])
        want = set(task['want']) if task.get('want') else None
        run, env = mod.make_runner(want=want, **task['args'])
        vcs_fn = getattr(mod, task.get('vcs', 'vcs'))
        replay_fn = getattr(mod, task.get('replay', 'replay'), None)
        cross_fn = getattr(mod, task.get('crosscheck', 'crosscheck'), None) if task.get('cross', True) else None
        stats = res
        replayed = {}
        budget = float(os.environ.get('VF_TASK_BUDGET_S', task.get('budget_s', 900)))
        for r in explore(run, max_paths=task.get('max_paths', 400000), part=task.get('part')):
            res['paths'] += 1
            if time.time() - t0 > budget:
                # a unit whose paths multiply beyond reach (e.g. value comparisons of whole parameters inside a search):
                # undecided, never a verdict
                res['limits'].append('task budget of %ds exhausted after %d paths in %s %r' % (budget, res['paths'], task['module'], task['args']))
                break
            res['solver_calls'] += r.ctx.n_solver_calls
            oc = r.outcome
            if oc == 'raise':
                oc = 'raise:' + r.exc.typname
            res['outcomes'][oc] = res['outcomes'].get(oc, 0) + 1
            if r.outcome == 'limit':
                res['limits'].append(r.limit)
                continue
            if r.outcome == 'infeasible':
                continue
            if r.ctx.pc:
                res['nontrivial_paths'] += 1
            r.ctx.notes['post_path'] = True
            try:
                vcs = vcs_fn(env, want)
            except EngineLimit as e:
                res['limits'].append('vcs: %s' % e)
                continue
            for vc in vcs:
                base = vc.name.split('#')[0].split(':')
                cname = vc.name
                key = clause_key(vc.name)
                bc = res['by_clause'].setdefault(key, [0, 0])
                bc[0] += 1
                st, model = discharge(r.ctx, vc, stats)
                if st == 'unsat':
                    bc[1] += 1
                    continue
                pc = [str(c) for c in r.ctx.pc]
                if st == 'unknown':
                    res['undecided'].append(dict(obligation=vc.name, task=task['args'], reason=model, pc=pc[:40]))
                    continue
                rec = dict(obligation=vc.name, props=list(vc.props), task=task['args'], module=task['module'], pc=pc[:60],
                           model=str(model)[:4000], solver='z3 %s: sat (negated obligation satisfiable under the path condition)' % z3.get_version_string())
                nrep = replayed.get(key, 0)
                replayed[key] = nrep + 1
                if nrep >= task.get('max_replays_per_clause', 2):
                    rec['replay'] = dict(status='replay-skipped', reason='same clause already replayed for this task')
                elif replay_fn is not None:
                    try:
                        rec['replay'] = replay_fn(env, vc, model)
                    except Exception as e:
                        rec['replay'] = dict(status='replay-error', error='%s: %s' % (type(e).__name__, e),
                                             trace=traceback.format_exc()[-1500:])
                else:
                    rec['replay'] = dict(status='no-replay')
                res['failures'].append(rec)
            if cross_fn is not None and not any(e[0] == 'external-raise' for e in r.ctx.events):
                # (a path on which an external call raised has no native counterpart without fault injection)
                try:
                    mm = cross_fn(env, r)
                    res['crosschecked'] += 1
                    if mm:
                        res['cross_mismatch'].append(dict(task=task['args'], mismatch=mm, pc=[str(c) for c in r.ctx.pc][:40]))
                except EngineLimit as e:
                    res['limits'].append('crosscheck: %s' % e)
            if len(res['samples']) < 2 and r.ctx.pc:
                res['samples'].append(dict(task=task['args'], outcome=oc, path_condition=[str(c) for c in r.ctx.pc][:12],
                                           obligations=[v.name for v in vcs][:12]))
        I = env.get('interp')
        if I is not None:
            res['units_entered'] = sorted(I.units_entered)
            res['summaries_used'] = sorted(I.summaries_used)
            res['externals_used'] = sorted(I.externals_used)
    except EngineError as e:
        res['engine_errors'].append('%s\n%s' % (e, traceback.format_exc()[-2000:]))
    except Exception as e:
        res['engine_errors'].append('%s: %s\n%s' % (type(e).__name__, e, traceback.format_exc()[-2500:]))
    res['wall_s'] = time.time() - t0
    return res


def clause_key(name):
    """obligation name without per-path / per-parameter suffixes: 'unit/kind:clause'"""
    head = name.split('#')[0]
    parts = head.split(':')
    return ':'.join(parts[:2])


def merge_results(results):
    agg = new_result(None)
    agg['tasks'] = 0
    for r in results:
        agg['tasks'] += 1
        for k in ('paths', 'obligations', 'discharged', 'trivial', 'z3_s', 'cvc5_s', 'z3_queries', 'cvc5_queries',
                  'solver_calls', 'crosschecked', 'nontrivial_paths'):
            agg[k] += r.get(k, 0)
        for k, v in r['outcomes'].items():
            agg['outcomes'][k] = agg['outcomes'].get(k, 0) + v
        for k, v in r['by_clause'].items():
            a = agg['by_clause'].setdefault(k, [0, 0])
            a[0] += v[0]
            a[1] += v[1]
        for k in ('failures', 'undecided', 'limits', 'engine_errors', 'cross_mismatch'):
            agg[k].extend(r[k])
        if len(agg['samples']) < 4:
            agg['samples'].extend(r['samples'][:1])
        agg['units_entered'] = sorted(set(agg['units_entered']) | set(r.get('units_entered', [])))
        for k in ('summaries_used', 'externals_used'):
            agg[k] = sorted(set(agg[k]) | set(r.get(k, [])))
    return agg


def run_pool(tasks, nproc=None, progress=False):
    nproc = nproc or min(16, os.cpu_count() or 1)
    nproc = int(os.environ.get('VF_PROCS', nproc))
    if nproc <= 1 or len(tasks) <= 1:
        return [run_task(t) for t in tasks]
    # tasks known to be long start first (only the schedule changes; imap_unordered returns every result)
    tasks = sorted(tasks, key=lambda t: -t.get('weight', 0))
    ctx = multiprocessing.get_context('fork')
    with ctx.Pool(nproc, maxtasksperchild=50) as pool:
        out = []
        for i, r in enumerate(pool.imap_unordered(run_task, tasks, chunksize=1)):
            out.append(r)
            if progress and (i + 1) % 50 == 0:
                print('  .. %d/%d tasks' % (i + 1, len(tasks)), file=sys.stderr, flush=True)
        return out
