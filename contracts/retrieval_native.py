"""Native witnesses for failed retrieval obligations: the solver model (attribute state of the inspected object at
entry + the outcome of every external call in order) is realised as a REAL object and a fault schedule injected
into the real modules (the names ``inspect`` / ``ast`` / ``funcsigs`` as seen from sigtools._util are replaced by
proxies for the duration of the call), then the real function is run under CPython and the clause is evaluated.

Returns None when the counterexample cannot be realised natively (then the violation is reported with
no-failing-input-found)."""
import inspect
import types

import z3

from vf.objects import class_name


def _mb(model, t):
    return t if isinstance(t, bool) else z3.is_true(model.eval(t, model_completion=True))


def _exc_instance(cls_name):
    from sigtools import _signatures, _autoforwards
    table = dict(AttributeError=AttributeError, KeyError=KeyError, ValueError=ValueError, TypeError=TypeError, OSError=OSError,
                 NotImplementedError=NotImplementedError, SyntaxError=SyntaxError, IndexError=IndexError, NameError=NameError,
                 UnknownForwards=_autoforwards.UnknownForwards, UnresolvableName=_autoforwards.UnresolvableName)
    if cls_name == 'IncompatibleSignatures':
        return _signatures.IncompatibleSignatures(inspect.Signature(), [])
    if cls_name == 'OtherError':
        return RuntimeError('injected')
    return table[cls_name]('injected')


class _Schedule:
    """fault schedule: per origin the list of outcomes (None = succeed, class name = raise) in call order"""

    def __init__(self, events):
        self.plan = {}
        for e in events:
            if ' raises ' in e:
                o, c = e.split(' raises ')
                self.plan.setdefault(o, []).append(c)
        self.raised = []

    def hit(self, origin):
        q = self.plan.get(origin)
        if q:
            c = q.pop(0)
            ex = _exc_instance(c)
            self.raised.append((origin, ex))
            raise ex


class _Proxy:
    def __init__(self, real, overrides):
        self._real = real
        self._over = overrides

    def __getattr__(self, name):
        if name in self._over:
            return self._over[name]
        return getattr(self._real, name)


def _build_object(objdesc, sched, label, forger=None, hint=None):
    """a callable instance with the attribute state of the model (class-level attributes as properties so that
    a read can raise per schedule)"""
    ns = {}

    def make_prop(attr, value):
        def get(self):
            sched.hit('getattr:%s.%s' % (label, attr))
            return value
        return property(get)

    def call(self, *args, **kwargs):
        return None
    ns['__call__'] = call
    values = {'__wrapped__': (lambda x, y=2: None), '__signature__': inspect.Signature(), '_sigtools__forger': forger,
              '_sigtools__autoforwards_hint': hint}
    for attr, st in objdesc.items():
        if st.get('visible_on_type'):
            ns[attr] = make_prop(attr, values.get(attr))
    K = type('K_' + label, (object,), ns)
    o = K()
    for attr, st in objdesc.items():
        if st.get('in_instance_dict_at_entry'):
            o.__dict__[attr] = values.get(attr)
    return o


def witness(env, vc, model, rec):
    from vf.concrete import real_sigtools
    real_sigtools()
    from sigtools import _util, _autoforwards, _specifiers, _signatures
    mode = env['mode']
    if mode not in ('af_function', 'forged'):
        return None
    if mode == 'af_function' and _mb(model, z3.Bool('own___signature___is_a_descriptor')) and _mb(model, z3.Bool('inst_func_signature')):
        # the object is a class whose own namespace stores a descriptor under __signature__
        from sigtools import specifiers
        import sigtools

        class Forwarder:
            __signature__ = specifiers.as_forged

            def __init__(self, a, *args, **kwargs):
                pass
        stored = vars(Forwarder)['__signature__']
        try:
            out = ('return', sigtools.signature(Forwarder))
        except Exception as e:
            out = ('raise', e)
        now = vars(Forwarder).get('__signature__')
        bad = [] if now is stored else [('frame:attributes_restored', "class Forwarder: __signature__ = specifiers.as_forged ...; after sigtools.signature(Forwarder) "
                                         "vars(Forwarder)['__signature__'] is %r instead of the descriptor" % (now,))]
        key = ':'.join(vc.name.split('/', 1)[1].split('#')[0].split(':')[:2])
        hit = [b for b in bad if key.startswith(b[0]) or b[0].startswith(key)]
        return dict(status='reproduced' if hit else ('other-violation' if bad else 'no-replay'), native_object='class with __signature__ = specifiers.as_forged',
                    native_outcome=(str(out[1]) if out[0] == 'return' else repr(out[1])), violated=[list(b) for b in (hit or bad)])
    sched = _Schedule(rec['external_events'])
    label = 'func' if mode == 'af_function' else 'obj'
    if label not in rec['objects']:
        return None

    def forger(obj):
        sched.hit('forger')
        return None

    def hint(obj):
        sched.hit('hint')
        return None
    try:
        o = _build_object(rec['objects'][label], sched, label, forger=forger, hint=hint)
    except Exception as e:
        return dict(status='no-replay', native='object not realisable: %r' % (e,))

    def signature(obj, *a, **k):
        sched.hit('inspect.signature')
        return inspect.signature(obj, *a, **k)

    def getsource(x):
        sched.hit('inspect.getsource')
        return inspect.getsource(x)

    import ast as _ast

    def parse(src, *a, **k):
        sched.hit('ast.parse')
        return _ast.parse(src, *a, **k)
    saved = (_util.funcsigs, _util.inspect, _util.ast)
    before = dict(vars(o))
    _util.funcsigs = _Proxy(inspect, {'signature': signature})
    _util.inspect = _Proxy(inspect, {'getsource': getsource})
    _util.ast = _Proxy(_ast, {'parse': parse})
    try:
        try:
            if mode == 'af_function':
                out = ('return', _autoforwards.autoforwards_function(o, (), {}))
            else:
                auto = _mb(model, z3.Bool('auto'))
                out = ('return', _specifiers.forged_signature(o, auto=auto))
        except Exception as e:
            out = ('raise', e)
    finally:
        _util.funcsigs, _util.inspect, _util.ast = saved
    after = dict(vars(o))
    bad = []
    if before.keys() != after.keys() or any(before[k] is not after[k] for k in before):
        bad.append(('frame:attributes_restored', 'instance dict before %s after %s' % (sorted(before), sorted(after))))
    forger_raised = [ex for origin, ex in sched.raised if origin == 'forger']
    if forger_raised and not (out[0] == 'raise' and out[1] is forger_raised[0]):
        bad.append(('raises:forger_errors_surface', 'forger raised %r, forged_signature %s' % (forger_raised[0], 'returned %s' % (out[1],) if out[0] == 'return' else 'raised %r' % (out[1],))))
    if out[0] == 'raise' and not any(out[1] is ex for _, ex in sched.raised if _ in ('forger', 'hint', 'inspect.signature') or _.startswith('getattr:')):
        if not isinstance(out[1], _autoforwards.UnknownForwards) or mode == 'forged':
            bad.append(('raises:', 'escaped %r' % (out[1],)))
    key = vc.name.split('/', 1)[1].split('#')[0]
    key = ':'.join(key.split(':')[:2])
    hit = [b for b in bad if key.startswith(b[0]) or b[0].startswith(key)]
    # the native object is ONE realisation of the symbolic one (a callable instance): failing to reproduce on it is
    # inconclusive, not evidence of an engine error
    return dict(status='reproduced' if hit else ('other-violation' if bad else 'no-replay'),
                native_object='instance of a generated callable class; attributes per model, class-level ones as properties',
                native_outcome=(str(out[1]) if out[0] == 'return' else repr(out[1])), violated=[list(b) for b in (hit or bad)])
