"""Which obligations decide which property, and with which bounds (quick / thorough)."""
import itertools
import random

from vf import harness

LEVELS = {}      # property -> evidence level category (default 'other')


def bound_text(bound):
    return ('per signature: <=%d positional-only, <=%d positional-or-keyword, <=%d keyword-only, <=%d named in total, '
            '*args/**kwargs present or not (names, defaults, annotations, provenance, flags, counts and call shapes symbolic)') % bound


def _combos(bound, arity, sample=None, seed=0):
    shs = harness.shapes(*bound)
    combos = list(itertools.product(shs, repeat=arity))
    exhaustive = True
    if sample is not None and len(combos) > sample:
        combos = random.Random(seed).sample(combos, sample)
        exhaustive = False
    return combos, exhaustive


def g_merge(prop, bound, arity, sample=None, seed=0):
    combos, ex = _combos(bound, arity, sample, seed)
    return dict(name='merge/%d-ary' % arity, bound=bound_text(bound) + ('' if ex else '; %d shape tuples drawn with VERIF_SEED out of the full product' % len(combos)),
                exhaustive=ex, tasks=[dict(module='contracts.merge', want=[prop], args=dict(shapes_=list(c))) for c in combos])


def g_merge_bare(prop, bound):
    """merge whose first input carries no provenance (assembled by hand): frame clauses only"""
    shs = harness.shapes(*bound)
    T = [dict(shapes_=[a], bare_first=True) for a in shs]
    T += [dict(shapes_=[a, b], bare_first=True) for a in shs for b in shs] + [dict(shapes_=[a, b, a], bare_first=True) for a in shs[:6] for b in shs[:12]]
    M = [dict(shape=s, nnames=1, mode='mask', hide=False, bare=True) for s in shs]
    E = [dict(shapes_=[a, b], mode='embed', bare_first=True) for a in shs for b in shs[:8]]
    return dict(name='merge, mask, embed / first input without provenance (assembled by hand, or an upgraded plain inspect.Signature)', bound=bound_text(bound), exhaustive=True,
                tasks=[dict(module='contracts.merge', want=[prop], args=a, cross=False) for a in T] +
                [dict(module='contracts.mask', want=[prop], args=a, cross=False) for a in M] +
                [dict(module='contracts.embed', want=[prop], args=a, cross=False) for a in E])


def g_shared_callable(prop, bound):
    """merge / embed of signatures whose provenance knows a second callable - possibly the other operand's own function,
    at any depth (what forwarding chains produce): depth map and frame clauses"""
    shs = harness.shapes(*bound)
    T = [dict(shapes_=[a, b], extra_callable=True) for a in shs for b in shs]
    E = [dict(shapes_=[a, b], mode='embed', extra_callable=True) for a in shs for b in shs]
    return dict(name='merge, embed / a callable known to both operands at different depths', bound=bound_text(bound), exhaustive=True,
                tasks=[dict(module='contracts.merge', want=[prop], args=a, cross=False) for a in T] +
                [dict(module='contracts.embed', want=[prop], args=a, cross=False) for a in E])


def g_merge_laws(prop, bound, bound3, sample3=None, seed=0):
    shs = harness.shapes(*bound)
    T = [dict(shapes_=[s], mode=m) for s in shs for m in ('unary', 'idem', 'neutral_l', 'neutral_r', 'roundtrip', 'roundtrip_sources', 'roundtrip_given_sources')]
    combos, ex = _combos(bound3, 3, sample3, seed)
    T += [dict(shapes_=list(c), mode='foldlaw') for c in combos]
    return dict(name='merge laws', bound=bound_text(bound) + '; fold law on triples with ' + bound_text(bound3) + ('' if ex else ' (%d triples drawn with VERIF_SEED)' % len(combos)),
                exhaustive=ex, tasks=[dict(module='contracts.merge', want=[prop], args=a) for a in T])


def g_mask(prop, bound, nnames, mode='mask', hide=True):
    shs = harness.shapes(*bound)
    return dict(name='mask/%s/%d-names' % (mode, nnames), bound=bound_text(bound) + '; %d masked names, n symbolic%s' % (nnames, ', 16 hide_* combinations symbolic' if (hide and mode == 'mask') else ''),
                exhaustive=True, tasks=[dict(module='contracts.mask', want=[prop], args=dict(shape=s, nnames=nnames, mode=mode, hide=hide)) for s in shs])


def g_embed(prop, bound, mode='embed', sample=None, seed=0):
    combos, ex = _combos(bound, 3 if mode == 'fold' else 2, sample, seed)
    return dict(name='embed/%s' % mode, bound=bound_text(bound) + '; use_varargs/use_varkwargs symbolic' + ('' if ex else '; %d shape tuples drawn with VERIF_SEED' % len(combos)),
                exhaustive=ex, tasks=[dict(module='contracts.embed', want=[prop], args=dict(shapes_=list(c), mode=mode)) for c in combos])


def g_forwards(prop, bound, nnames=1, sample=None, seed=0):
    combos, ex = _combos(bound, 2, sample, seed)
    return dict(name='forwards', bound=bound_text(bound) + '; n, %d name(s), hide_args, hide_kwargs, use_varargs, use_varkwargs, partial symbolic' % nnames + ('' if ex else '; %d shape pairs drawn with VERIF_SEED' % len(combos)),
                exhaustive=ex, tasks=[dict(module='contracts.forwards', want=[prop], args=dict(shapes_=list(c), nnames=nnames)) for c in combos])


def g_partial(prop, bound, nkeys, mode='partial'):
    shs = harness.shapes(*bound)
    return dict(name='signature/%s/%d-keywords' % (mode, nkeys), bound=bound_text(bound) + ('; |args| symbolic, %d bound keywords with symbolic names and values' % nkeys if mode == 'partial' else '; eager or postponed annotations symbolic'),
                exhaustive=True, tasks=[dict(module='contracts.partial', want=[prop], args=dict(shape=s, nkeys=nkeys, mode=mode)) for s in shs])


def g_concile(prop):
    kinds = [0, 1, 2, 3, 4]
    return dict(name='_concile_meta', bound='none: loop-free unit, both operands fully symbolic, all 25 pairs of parameter kinds (tier P)',
                exhaustive=True, tasks=[dict(module='contracts.concile', want=[prop], args=dict(kinds=(a, b))) for a in kinds for b in kinds])


def g_retrieval(prop):
    from contracts.retrieval import DEF_SHAPES
    T = []
    for sh in DEF_SHAPES:
        for node in ('FunctionDef', 'AsyncFunctionDef', 'Assign', 'Expr'):
            T.append(dict(mode='af_function', shape=sh, node=node))
    for kind in ('function', 'instance'):
        for node in ('FunctionDef', 'Assign'):
            T.append(dict(mode='forged', kind=kind, node=node))
    T += [dict(mode='af_function_ua', shape=sh) for sh in DEF_SHAPES]
    T += [dict(mode='af_function_ua', shape=sh, annotated=True) for sh in DEF_SHAPES]
    for same in (0, 1):
        for part in (0, 1):
            for two, one in ((0, 0), (0, 1), (1, 0)):
                T.append(dict(mode='fwd', variant=dict(both_calls_same_callee=same, written_as_functools_partial_0=part,
                                                       two_values_already_in_star_args=two, one_value_already_in_star_args=one)))
    T += [dict(mode='af_ast'), dict(mode='as_forged'), dict(mode='sphinx'), dict(mode='recursion'),
          dict(mode='fwd_method'), dict(mode='fwd_super'), dict(mode='spec_forwards'), dict(mode='af_partial'), dict(mode='af_method')]
    return dict(name='retrieval', bound='none (tier P): the inspected object is symbolic - presence of every attribute the units touch in the '
                'instance dict / on the type, every external outcome (inspect.signature, getsource, ast.parse, forger, hint, descriptors) '
                'and every exception class are solver variables; kinds of object: function, callable instance; class of the parsed node enumerated',
                exhaustive=True, tasks=_parts([dict(module='contracts.retrieval', want=[prop], args=a, cross=False) for a in T],
                                              lambda t: 16 if (t['args']['mode'] == 'forged' and t['args'].get('kind') == 'instance') else 1))


def _parts(tasks, how_many):
    """spread a big unit over several pool tasks: each explores one of n disjoint parts of its decision tree (harness.explore)"""
    out = []
    for t in tasks:
        n = how_many(t)
        if n <= 1:
            out.append(t)
        else:
            out += [dict(t, part=(i, n), weight=100) for i in range(n)]
    return out


def g_dropin(prop, bound):
    from contracts.dropin import OTHERS
    T = [dict(unit='class'), dict(unit='ua_twice', shape=(0, 1, 0, 0, 0))]
    for k in range(5):
        T += [dict(unit='param_eq', kind=k, other=o) for o in OTHERS]
        T += [dict(unit='param_replace', kind=k, other=o) for o in ('keep', 'override')]
    for sh in harness.shapes(*bound):
        T += [dict(unit='sig_eq', shape=sh, other=o) for o in OTHERS]
        T += [dict(unit='sig_replace', shape=sh, other=o) for o in ('keep', 'override')]
        T += [dict(unit='sig_init', shape=sh), dict(unit='sig_init_plain', shape=sh), dict(unit='sig_replace_plain', shape=sh),
              dict(unit='sig_init_iter', shape=sh), dict(unit='sig_replace_iter', shape=sh), dict(unit='sig_init_plain_iter', shape=sh)]
        if sh[3] == 0:
            T += [dict(unit='sig_evaluated', shape=sh)]
    return dict(name='upgraded inspect classes', bound='parameter-level units: none (tier P, all five kinds, every field symbolic); signature-level units: ' + bound_text(bound) +
                '; the other operand of == ranges over: the object itself, an upgraded twin with symbolic data, the plain inspect object with the same data, '
                'a plain inspect object with symbolic data, None, a foreign object',
                exhaustive=True, tasks=[dict(module='contracts.dropin', want=[prop], args=a, cross=False) for a in T])


def g_support(prop, bound, maxkeys):
    T = []
    for sh in harness.shapes(*bound):
        npos = sh[0] + sh[1]
        for na in range(npos + 3):
            for nk in range(maxkeys + 1):
                T.append(dict(mode='bind', shape=sh, nargs=na, nkeys=nk))
        T.append(dict(mode='makeup', shape=sh))
    for sh in harness.shapes(1, 1, 1, 2):
        T.append(dict(mode='sort', shape=sh, nargs=sh[0] + sh[1], nkeys=1))
    return dict(name='support binder', bound=bound_text(bound) + '; 0..positionals+2 positional arguments, 0..%d keywords whose NAMES are symbolic (may name any parameter or none), argument values symbolic' % maxkeys,
                exhaustive=True, tasks=[dict(module='contracts.support', want=[prop], args=a) for a in T])


def g_modifiers(prop, bound, q):
    T = []
    shs = harness.shapes(*bound)
    for sh in shs:
        for npos, nkwo in ((0, 1), (1, 0), (1, 1), (0, 2), (2, 0)) + (() if q else ((2, 1), (1, 2))):
            T.append(dict(mode='prepare', shape=sh, npos=npos, nkwo=nkwo))
        for npos, nkwo in ((0, 1), (1, 0), (1, 1)) + (() if q else ((0, 2), (2, 0))):
            for na in range(sh[0] + sh[1] + 2):
                for nk in (0, 1) if q else (0, 1, 2):
                    T.append(dict(mode='call', shape=sh, npos=npos, nkwo=nkwo, nargs=na, nkeys=nk))
        for m in ('_kwoargs_start', '_posoargs_end', '_autokwoargs'):
            for n in (0, 1) if q else (0, 1, 2):
                T.append(dict(mode=m, shape=sh, npos=n))
        for n in (0, 1, 2):
            for ret in (0, 1):
                T.append(dict(mode='annotate', shape=sh, npos=n, nkwo=ret))
    T.append(dict(mode='desc_get', shape=(0, 1, 0, 0, 0)))
    for sh in harness.shapes(1, 2, 1, 3):
        for a, b in ((1, 0), (0, 1), (1, 1)):
            T.append(dict(mode='stack', shape=sh, npos=a, nkwo=b))
    return dict(name='modifiers', bound=bound_text(bound) + '; <=2 names selected as positional-only and <=2 as keyword-only (3 in total at most; the NAMES are symbolic: any parameter, each other, or none); '
                'calls: 0..positionals+1 positional arguments, <=%d keywords with symbolic names' % (1 if q else 2),
                exhaustive=True, tasks=[dict(module='contracts.modifiers', want=[prop], args=a, cross=(a['mode'] in ('prepare', 'call'))) for a in T])


def g_discovery(prop, q):
    from contracts.discovery import CONTEXTS, KILLERS, MARKERS, BINDERS
    T = [dict(mode='resolve', marker=m, unknown=u) for m in MARKERS for u in (False, True)]
    for c in CONTEXTS:
        for k in KILLERS:
            for o in ('before', 'after'):
                T.append(dict(mode='visitor', context=c, killer=k, order=o, explicit=False))
                if (not q) or (c in ('expr', 'lambda') and k in ('assign', 'handover', 'method_call', 'unrelated')):
                    T.append(dict(mode='visitor', context=c, killer=k, order=o, explicit=True))
    T += [dict(mode='binders', row=i) for i in range(len(BINDERS))]
    return dict(name='discovery', bound='resolve_name: none (tier P). Visitor: program templates = one forwarding call in each of %d contexts x one interfering statement of %d kinds '
                'before / after it, with or without explicit arguments; EVERY identifier in the template is a solver variable (may or may not coincide with *args, **kwargs, '
                'the first parameter, each other). Binder table: %d constructs of the ASDL grammar' % (len(CONTEXTS), len(KILLERS), len(BINDERS)),
                exhaustive=True, tasks=[dict(module='contracts.discovery', want=[prop], args=a, cross=(a['mode'] == 'visitor')) for a in T])


def g_wrappers(prop, q):
    T = []
    for c in ('_SimpleWrapped', '_Wrapped'):
        T += [dict(mode='init', cls=c), dict(mode='get', cls=c)]
        for na in (0, 1, 2):
            for nk in (0, 1) if q else (0, 1, 2):
                T.append(dict(mode='call', cls=c, nargs=na, nkeys=nk))
        for d in (1, 2, 3):
            T.append(dict(mode='wrappers', cls=c, depth=d))
    T.append(dict(mode='forger', cls='_Wrapped'))
    T.append(dict(mode='forger_wrapper'))
    T.append(dict(mode='safe_get'))
    for nf in (1, 2, 3):
        for na in (0, 1):
            T.append(dict(mode='combination', nfuncs=nf, nargs=na, nkeys=1))
        T.append(dict(mode='combination_sig', nfuncs=nf))
    return dict(name='wrappers', bound='none for the object state (tier P: which attributes the wrapped callable carries, every result and every exception symbolic); '
                'argument lists <=2 positional + <=2 keywords, <=3 combined functions, wrapper chains of depth <=3 (the depth the property names)',
                exhaustive=True, tasks=[dict(module='contracts.wrappers', want=[prop], args=a, cross=False) for a in T])


def g_folds(prop):
    return dict(name='merge fold (all n)', bound='none: tier P - the input tuple is an abstract sequence of symbolic length n >= 1; the loop of merge is checked against an '
                'inductive invariant (init / preservation at an arbitrary iteration / use), callees replaced by their contracts (which tier-B obligations discharge)',
                exhaustive=True, tasks=[dict(module='contracts.folds', want=[prop], args={}, cross=False)])


def plan(prop, tier, seed=0):
    """returns list of job groups: dict(name, tasks, bound, exhaustive)"""
    q = tier == 'quick'
    G = []
    B2 = (1, 2, 1, 3) if q else (2, 2, 2, 4)        # pairs
    B3 = (1, 1, 1, 2) if q else (1, 2, 1, 3)        # triples
    B1 = (1, 2, 1, 3) if q else (2, 3, 2, 5)        # single-signature units
    BS = (1, 1, 1, 2) if q else (1, 2, 1, 3)        # expensive pair units (forwards)
    # properties whose clauses ride on the paths of merge / embed / mask / forwards (C08, C10, C11, C15, C16): their thorough tier goes
    # beyond quick in every group but does not repeat the full pair space of C01 / C02 / C09, whose thorough tiers cover it
    BX = (1, 2, 1, 3) if q else (1, 2, 1, 4)
    if prop == 'C01':
        G += [g_merge(prop, B2, 2), g_merge(prop, B3, 3, 400 if q else 5000, seed), g_folds(prop)]
        if q:
            G += [g_merge(prop, (2, 0, 0, 2), 2)]        # several positional-only parameters against star parameters (within B2 of the thorough tier)
    elif prop == 'C09':
        G += [g_merge(prop, B2, 2), g_merge(prop, B3, 3, 200 if q else 2500, seed), g_mask(prop, B1, 0, 'zero'),
              g_embed(prop, B3 if q else BX, 'embed'), g_merge_laws(prop, B1, B3, 300 if q else 1500, seed)]
        if q:
            G += [g_merge(prop, (2, 0, 0, 2), 2)]
    elif prop == 'C02':
        G += [g_embed(prop, B2, 'embed'), g_embed(prop, (1, 1, 0, 1) if q else (1, 1, 1, 2), 'fold', 300 if q else 2500, seed)]
    elif prop == 'C03':
        G += [g_mask(prop, B1, 1), g_mask(prop, B1, 2, hide=not q), g_mask(prop, B1, 2, 'order'), g_mask(prop, B1, 0, 'zero'),
              g_mask(prop, B1, 0, 'maskmask')]
        if not q:
            G += [g_mask(prop, (1, 2, 1, 3), 3, hide=False), g_mask(prop, (1, 2, 1, 3), 3, 'order')]
    elif prop == 'C04':
        G += [g_forwards(prop, BS, 1, 120 if q else 2500, seed)]
    elif prop == 'C19':
        G += [g_partial(prop, B1, 0), g_partial(prop, B1, 1), g_partial(prop, B1, 2)]
        if not q:
            G += [g_partial(prop, (1, 2, 1, 3), 3)]
    elif prop in ('C08', 'C10', 'C11', 'C15', 'C16'):
        if prop in ('C16', 'C08', 'C15'):
            G += [g_merge_bare(prop, (1, 1, 1, 2))]
        if prop == 'C16':
            G += [g_partial(prop, (1, 1, 1, 2), 0, 'stored')]
            g = g_merge_laws(prop, (1, 1, 1, 2) if q else B1, (0, 0, 0, 0), 0, seed)
            g['tasks'] = [t for t in g['tasks'] if t['args']['mode'].startswith('roundtrip')]
            g['name'] = 'sort_params / apply_params round trips'
            G += [g]
        if prop in ('C08', 'C16'):
            G += [g_shared_callable(prop, (0, 1, 1, 1) if q else (1, 1, 1, 2))]
        G += [g_merge(prop, BX, 2), g_merge(prop, B3, 3, 150 if q else 1000, seed), g_mask(prop, B1, 1), g_embed(prop, B3 if q else BX, 'embed'),
              g_forwards(prop, BS, 1, 60 if q else 400, seed)]
        if prop in ('C08', 'C10', 'C11'):
            G += [g_partial(prop, B1, 1), g_partial(prop, B1 if q else (1, 2, 1, 3), 0, 'plain'), g_partial(prop, B1 if q else (1, 2, 1, 3), 0, 'wrapped')]
    if prop == 'C15':
        G += [g_folds(prop)]
    if prop == 'C12':
        G += [g_modifiers(prop, (1, 2, 1, 3) if q else (1, 3, 1, 4), q)]
    if prop == 'C11':
        g = g_dropin(prop, B1)
        g['tasks'] = [t for t in g['tasks'] if t['args']['unit'] in ('sig_evaluated', 'param_replace', 'sig_replace', 'ua_twice')]
        g['name'] = 'evaluated() / replace() of the upgraded classes'
        G += [g]
        g = g_modifiers(prop, (1, 2, 1, 3), True)
        g['tasks'] = [t for t in g['tasks'] if t['args']['mode'] == 'annotate']
        g['name'] = 'modifiers.annotate'
        G += [g]
    if prop == 'C08':
        g = g_modifiers(prop, (1, 2, 1, 3), True)
        g['tasks'] = [t for t in g['tasks'] if t['args']['mode'] == 'prepare']
        g['name'] = 'modifiers (provenance swap)'
        G += [g]
    if prop == 'C20':
        G += [g_support(prop, (1, 2, 1, 3) if q else (2, 2, 2, 4), 2 if q else 3),
              dict(name='support string helpers (tier R)', exhaustive=True,
                   bound='RUNTIME contract (bounded stand-in, not proved): the real s / f / func_from_sig run natively on every signature with names a..e, '
                   '<=1 positional-only, <=2 positional-or-keyword (defaults a suffix), *args or not, <=2 keyword-only (any defaults), **kwargs or not, '
                   '3 annotation patterns; eager and postponed; all 7 modifiers-spelling option combinations for signatures without positional-only '
                   'parameters; f checked against really calling a twin function on <= positionals+1 positional x <=2 keywords',
                   tasks=[dict(module='contracts.support', want=[prop], args=dict(mode='roundtrip', shape=(i, 16)), cross=False) for i in range(16)])]
    if prop == 'C14':
        G += [g_dropin(prop, B1), g_partial(prop, B1 if q else (1, 2, 1, 3), 0, 'plain')]
    if prop in ('C13', 'C04'):
        G += [g_wrappers(prop, q)]
    if prop in ('C05', 'C06', 'C07'):
        G += [g_discovery(prop, q)]
    if prop in ('C05', 'C07'):
        G += [g_forwards(prop, BS, 1, 60 if q else 400, seed)]      # narrowing: every element of discovery only accepts what the def accepts
    if prop in ('C04', 'C05', 'C06', 'C07', 'C15', 'C16', 'C13'):
        G += [g_retrieval(prop)]
    if prop == 'C11':
        g = g_retrieval(prop)
        g['tasks'] = [t for t in g['tasks'] if t['args']['mode'] == 'af_function_ua']
        g['name'] = 'retrieval of a wrapper (own annotations)'
        G += [g]
    if prop == 'C14':
        g = g_retrieval(prop)
        g['tasks'] = [t for t in g['tasks'] if t['args']['mode'] == 'forged']
        g['name'] = 'retrieval returns the upgraded type'
        G += [g]
    if prop in ('C19', 'C10'):
        g = g_retrieval(prop)
        g['tasks'] = [t for t in g['tasks'] if t['args']['mode'] == 'af_partial']
        g['name'] = 'discovery through partials'
        G += [g]
    if prop in ('C01', 'C02', 'C04', 'C08', 'C09', 'C10', 'C11', 'C15', 'C16', 'C19'):
        G += [g_concile(prop)]       # the contract used as call summary, discharged on the real body
    return G
