"""Contracts of sigtools._signatures.merge and _Merger.__iter__ (+ the helpers inlined into them) and the
harness that generates their verification conditions from the real AST.

Clauses (names are the obligation names used in evidence / VIOLATION lines):

 _signatures.merge
   post:sound_pure        C01 (i)   every pure call accepted by the result is accepted by every input
   post:sound_mixed       C01 (ii)  same for every non-colliding call when the inputs are role-consistent
   post:exact             C09       name-aligned, roles kept: accepted by all inputs => accepted by the result
   raises:only_if_no_common_call C09  IncompatibleSignatures under that precondition => no call is accepted by all
   raises:only_ValueError C15       nothing but ValueError escapes; IncompatibleSignatures on role-consistent inputs
   post:wellformed        C15       result is a valid signature of upgraded parameters with '+depths'
   post:meta_*            C10       optional/default/annotation/kind/order rules over the ghost stands_for
   post:ua_follows        C11       the upgraded annotation of each result parameter denotes its annotation
   post:sources_wf        C08       one entry per parameter, non-empty, duplicate free, depth known, declared
   post:sources_exact     C08       consistently named inputs: exactly the input callables declaring the name
   post:depths_min        C08       depth map = pointwise minimum
   frame:inputs_unchanged C16       no write to any object reachable from an input
   frame:fresh_sources    C16       result provenance map and lists are not shared with an input
 _signatures._Merger.__iter__   (asserted at the boundary in every context reached: mode inline+assert)
   post:bucket_consistent C01/C09   every result parameter sits in the bucket of its kind (carries the n-ary fold)
   post:sound_pure / post:sound_mixed  as above on SortedParameters, requires bucket-consistent operands
"""
import itertools

import z3

from vf import sym, spec, harness
from vf.sym import MV, SymName, SymRef, SymInt, SymDict, NONEVAL, PyExc, EngineLimit, EMPTY
from vf.spec import Z3Ops, P, View, PO, POK, VP, KWO, VK
from vf.interp import Interp, Inst, IClass
from vf.harness import VC, mk_sig, mk_call, sig_view, pview, run_unit
from .common import (FRAME_PROPS, clause, REGISTRY, install_concile_summary, sp_view, sp_params, bucket_consistent, sp_fields,
                     names_distinct_term, name_term, stands_of, ua_denotes, ua_follows_goal, ua_return_goal)

U = '_signatures.merge'
UM = '_signatures._Merger.__iter__'

C_SOUND_PURE = clause(U, 'post:sound_pure', ['C01'], 'B')
C_SOUND_MIXED = clause(U, 'post:sound_mixed', ['C01'], 'B')
C_EXACT = clause(U, 'post:exact', ['C09'], 'B')
C_RAISE_NOCOMMON = clause(U, 'raises:only_if_no_common_call', ['C09'], 'B')
C_ONLY_VE = clause(U, 'raises:only_ValueError', ['C15'], 'B')
C_WF = clause(U, 'post:wellformed', ['C15'], 'B')
C_META_OPT = clause(U, 'post:meta_optional_only_if_all', ['C10'], 'B')
C_META_DEF = clause(U, 'post:meta_default_common_or_None', ['C10'], 'B')
C_META_ANN = clause(U, 'post:meta_annotation_agreed', ['C10'], 'B')
C_META_KIND = clause(U, 'post:meta_kind_only_restricts', ['C10'], 'B')
C_META_ORDER = clause(U, 'post:meta_positional_order_kept', ['C10'], 'B')
C_META_NAME = clause(U, 'post:meta_same_name_contributes', ['C10'], 'B',
                     'independent of the bookkeeping of the code (which parameters it reconciled): when the positional names of the inputs are '
                     'aligned, EVERY keyword-passable input parameter named like a keyword-passable result parameter constrains it - optional only '
                     'if that one is, default its default or None, annotation not contradicting it, keyword-only if that one is')
C_UA = clause(U, 'post:ua_follows', ['C11'], 'B')
C_SRC_WF = clause(U, 'post:sources_wf', ['C08'], 'B')
C_SRC_EXACT = clause(U, 'post:sources_exact', ['C08'], 'B')
C_DEPTHS = clause(U, 'post:depths_min', ['C08'], 'B')
C_FRAME = clause(U, 'frame:inputs_unchanged', FRAME_PROPS, 'B')
C_FRESH = clause(U, 'frame:fresh_sources', FRAME_PROPS, 'B')
CM_BC = clause(UM, 'post:bucket_consistent', ['C01', 'C09'], 'B', internal=True)
CM_SOUND_PURE = clause(UM, 'post:sound_pure', ['C01'], 'B', internal=True)
CM_SOUND_MIXED = clause(UM, 'post:sound_mixed', ['C01'], 'B', internal=True)
CM_ONLY_VE = clause(UM, 'raises:only_ValueError', ['C15'], 'B', internal=True)


L_UNARY = clause(U, 'law:unary_identity', ['C09'], 'B', 'merge(s) equals s (parameters, return annotation, provenance)')
L_IDEM = clause(U, 'law:idempotent', ['C09'], 'B', 'merge(s, s) equals s (parameters, return annotation)')
L_NEUTRAL = clause(U, 'law:bare_stars_neutral', ['C09'], 'B', 'a bare (*args, **kwargs) is neutral on either side up to the names of the star parameters')
L_ROUND = clause('_signatures.apply_params', 'law:sort_apply_round_trip', ['C09', 'C16'], 'B', 'apply_params(s, *sort_params(s)) equals s; with sources=True the provenance map is a fresh equal copy')
L_FOLD = clause(U, 'law:fold', ['C09', 'C01'], 'B', 'roles kept: merge(a, b, c) equals merge(merge(a, b), c) in parameters and provenance')
LAW_MODES = ('unary', 'idem', 'neutral_l', 'neutral_r', 'roundtrip', 'roundtrip_sources', 'roundtrip_given_sources', 'foldlaw')


def exc_is(interp, exc, cls_name):
    """is the escaped exception an instance of the sigtools class ``cls_name`` / host class"""
    t = exc.typ
    if isinstance(t, IClass):
        return any(getattr(c, 'name', getattr(c, '__name__', None)) == cls_name for c in t.mro)
    return any(c.__name__ == cls_name for c in t.__mro__)


def src_entries(src):
    """[(key, list)] without '+depths', and the depth map"""
    ent = [(k, v) for k, v in src.items_ if not (isinstance(k, str) and k == '+depths')]
    dep = src.get('+depths')
    return ent, dep


def key_eq(k, t):
    """z3 condition: dict key k (SymName or str) equals name term t"""
    if isinstance(k, SymName):
        return k.t == t if not isinstance(t, str) else z3.BoolVal(False)
    return z3.BoolVal(k == t) if isinstance(t, str) else z3.BoolVal(False)


def merge_vcs(env, want):
    """verification conditions for one explored path of merge(*inputs). env: dict with infos, r (PathResult),
    interp, merger_calls.  ``want``: set of property ids (None = all)"""
    r = env['r']
    infos = env['infos']
    I = env['interp']
    ctx = r.ctx
    m = I.module('sigtools._signatures')
    EmptyAnn = m.ns['EmptyAnnotation']
    UP = m.ns['UpgradedParameter']
    out = []

    def on(c):
        if env.get('extra_callable') and c not in (C_FRAME, C_FRESH, C_ONLY_VE, C_WF, C_DEPTHS):
            return False      # the variant with richer provenance is stated for the depth map and the frame
        if env.get('bare_first') and c not in (C_FRAME, C_FRESH, C_ONLY_VE, C_WF):
            return False      # an input assembled by hand without provenance: only the frame / exception / well-formedness clauses are stated for it
        return want is None or any(p in want for p in c.props)

    in_views = [sig_view(i.sig) for i in infos]
    all_names = [t for i in infos for t in i.names]
    call, ccons = mk_call(all_names)
    env['call'] = call
    acc_in = None
    rc = spec.role_consistent(Z3Ops, in_views)
    aligned = z3.And(*[spec.name_aligned(Z3Ops, a, b) for a, b in itertools.combinations(in_views, 2)] +
                     [spec.roles_kept(Z3Ops, in_views)])

    def acc_inputs():
        nonlocal acc_in
        if acc_in is None:
            acc_in = [spec.accepts(Z3Ops, v, call) for v in in_views]
        return acc_in

    # ---- the merger boundary (every _Merger run on this path)
    for k, (l_sp, r_sp, oc) in enumerate(env['merger_calls']):
        bc_in = bucket_consistent(l_sp) and bucket_consistent(r_sp)
        tag = '#step%d' % (k + 1)
        if not bc_in:
            # call-site precondition of the merger contract
            if on(CM_BC):
                out.append(VC(CM_BC.full + tag + ':operands', [], z3.BoolVal(False), CM_BC.props))
            continue
        if oc[0] == 'raise':
            if on(CM_ONLY_VE):
                out.append(VC(CM_ONLY_VE.full + tag, [], z3.BoolVal(exc_is(I, oc[1], 'ValueError')), CM_ONLY_VE.props))
            continue
        res_sp = oc[1]
        if on(CM_BC):
            out.append(VC(CM_BC.full + tag, [], z3.BoolVal(bucket_consistent(res_sp)), CM_BC.props))
        if (on(CM_SOUND_PURE) or on(CM_SOUND_MIXED)) and (len(env['merger_calls']) > 1) and bucket_consistent(res_sp):
            # only asserted separately when the step is not the whole merge (for 2-ary merge the public clauses
            # are the same statement)
            lv, rv, resv = sp_view(l_sp), sp_view(r_sp), sp_view(res_sp)
            distinct = [names_distinct_term(sp_params(l_sp)), names_distinct_term(sp_params(r_sp))]
            a_res = spec.accepts(Z3Ops, resv, call)
            goal = z3.And(spec.accepts(Z3Ops, lv, call), spec.accepts(Z3Ops, rv, call))
            if on(CM_SOUND_PURE):
                out.append(VC(CM_SOUND_PURE.full + tag, ccons + distinct + [spec.pure(Z3Ops, call), a_res], goal, CM_SOUND_PURE.props))
            if on(CM_SOUND_MIXED):
                out.append(VC(CM_SOUND_MIXED.full + tag, ccons + distinct + [spec.role_consistent(Z3Ops, [lv, rv]),
                              spec.noncolliding(Z3Ops, resv, [lv, rv], call), a_res], goal, CM_SOUND_MIXED.props))

    # ---- frames hold on every exit
    if on(C_FRAME):
        out.append(VC(C_FRAME.full, [], z3.BoolVal(not ctx.heap_writes), C_FRAME.props))
        env['frame_writes'] = list(ctx.heap_writes)

    if r.outcome == 'raise':
        e = r.exc
        if on(C_ONLY_VE):
            out.append(VC(C_ONLY_VE.full + ':type', [], z3.BoolVal(exc_is(I, e, 'ValueError')), C_ONLY_VE.props))
            if not exc_is(I, e, 'IncompatibleSignatures'):
                # plain ValueError: only allowed when the inputs are not role-consistent
                out.append(VC(C_ONLY_VE.full + ':incompatible_on_role_consistent', [rc], z3.BoolVal(False), C_ONLY_VE.props))
        if on(C_RAISE_NOCOMMON) and exc_is(I, e, 'IncompatibleSignatures') and len(infos) == 2:
            out.append(VC(C_RAISE_NOCOMMON.full, ccons + [aligned] + acc_inputs(), z3.BoolVal(False), C_RAISE_NOCOMMON.props))
        return out

    res = r.value
    if not (isinstance(res, Inst) and '_parameters' in res._d):
        out.append(VC(C_WF.full + ':is_signature', [], z3.BoolVal(False), C_WF.props))
        return out
    rparams = res._d['_parameters'].plist
    resv = sig_view(res)
    # result names must be among the candidate keyword names of the call shape
    for p in rparams:
        if not any(name_term(p) is t or (not isinstance(name_term(p), str) and name_term(p).eq(t)) for t in all_names):
            raise EngineLimit('result parameter name outside the input names')
    a_res = spec.accepts(Z3Ops, resv, call)
    if on(C_SOUND_PURE):
        out.append(VC(C_SOUND_PURE.full, ccons + [spec.pure(Z3Ops, call), a_res], z3.And(*acc_inputs()), C_SOUND_PURE.props))
    nonc = spec.noncolliding(Z3Ops, resv, in_views, call)
    if on(C_SOUND_MIXED):
        out.append(VC(C_SOUND_MIXED.full, ccons + [rc, nonc, a_res], z3.And(*acc_inputs()), C_SOUND_MIXED.props))
    if on(C_EXACT) and len(infos) == 2:      # the property states exactness for pairs; triples: fold law
        out.append(VC(C_EXACT.full, ccons + [aligned, nonc] + acc_inputs(), a_res, C_EXACT.props))
    if on(C_WF):
        ok = all(isinstance(p, Inst) and UP in p._cls.mro for p in rparams)
        src = res._d.get('sources')
        ok = ok and isinstance(src, SymDict) and src.get('+depths') is not None
        out.append(VC(C_WF.full + ':upgraded_with_depths', [], z3.BoolVal(bool(ok)), C_WF.props))
        out.append(VC(C_WF.full + ':valid', [], spec.wf(Z3Ops, resv), C_WF.props))

    # ---- metadata rules over ghost stands_for
    if on(C_META_OPT) or on(C_META_DEF) or on(C_META_ANN) or on(C_META_KIND) or on(C_META_ORDER) or on(C_UA) or on(C_META_NAME):
        input_params = {id(p): (ii, pi) for ii, inf in enumerate(infos) for pi, p in enumerate(inf.params)}
        for p in rparams:
            st = stands_of(p)
            tag = ':%s' % p._d.get('_vf_tag', '?')
            if not st or any(id(s) not in input_params for s in st):
                out.append(VC(C_META_OPT.full + tag + ':stands_for_inputs', [], z3.BoolVal(False), C_META_OPT.props))
                continue
            d = p._d['_default']
            a = p._d['_annotation']
            if on(C_META_OPT):
                out.append(VC(C_META_OPT.full + tag, [d.has], z3.And(*[s._d['_default'].has for s in st]), C_META_OPT.props))
                # the name is the name of (one of) the parameters it stands for
                out.append(VC(C_META_OPT.full + tag + ':name', [], z3.Or(*[Z3Ops.eq(name_term(p), name_term(s)) for s in st]), C_META_OPT.props))
            if on(C_META_DEF):
                vals = [s._d['_default'].val for s in st]
                alleq = z3.And(*[vals[0] == v for v in vals[1:]]) if len(vals) > 1 else z3.BoolVal(True)
                out.append(VC(C_META_DEF.full + tag, [d.has], z3.If(alleq, d.val == vals[0], d.val == NONEVAL), C_META_DEF.props))
            if on(C_META_ANN):
                anns = [s._d['_annotation'] for s in st]
                some = z3.Or(*[x.has for x in anns])
                agree = z3.And(*[z3.Implies(z3.And(x.has, y.has), x.val == y.val) for x, y in itertools.combinations(anns, 2)]) \
                    if len(anns) > 1 else z3.BoolVal(True)
                expect_has = z3.And(some, agree)
                goal = z3.And(a.has == expect_has, z3.Implies(a.has, z3.And(*[z3.Implies(x.has, a.val == x.val) for x in anns])))
                out.append(VC(C_META_ANN.full + tag, [], goal, C_META_ANN.props))
            if on(C_META_KIND):
                ok = all(p.kind == s.kind or (s.kind == POK and p.kind in (PO, KWO)) for s in st)
                out.append(VC(C_META_KIND.full + tag, [], z3.BoolVal(ok), C_META_KIND.props))
            if on(C_UA):
                out.append(VC(C_UA.full + tag, [], ua_follows_goal(p, EmptyAnn), C_UA.props))
            if on(C_META_NAME) and p.kind in (POK, KWO) and len(infos) == 2:      # (stated for pairs: in a fold an earlier step may have consumed the name positionally)
                pos_aligned = [spec.name_aligned(Z3Ops, x, y) for x, y in itertools.combinations(in_views, 2)]
                for inf in infos:
                    for s in inf.params:
                        if s.kind not in (POK, KWO) or any(s is t for t in st):
                            continue
                        sd, sa = s._d['_default'], s._d['_annotation']
                        goal = z3.And(z3.Implies(d.has, sd.has), z3.Implies(z3.And(d.has, sd.has), z3.Or(d.val == sd.val, d.val == NONEVAL)),
                                      z3.Implies(z3.And(a.has, sa.has), a.val == sa.val), z3.BoolVal(not (s.kind == KWO and p.kind == POK)))
                        out.append(VC(C_META_NAME.full + tag + ':' + s._d.get('_vf_tag', '?'), pos_aligned + [Z3Ops.eq(name_term(p), name_term(s))], goal, C_META_NAME.props))
        if on(C_UA):
            out.append(VC(C_UA.full + ':return', [], ua_return_goal(res, infos[0].sig, EmptyAnn), C_UA.props))
        if on(C_META_ORDER):
            ok = True
            pos_res = [p for p in rparams if p.kind in (PO, POK)]
            for ii, inf in enumerate(infos):
                idx = []
                for p in pos_res:
                    for s in stands_of(p):
                        if id(s) in input_params and input_params[id(s)][0] == ii and s.kind in (PO, POK):
                            idx.append(input_params[id(s)][1])
                ok = ok and idx == sorted(idx) and len(set(idx)) == len(idx)
            out.append(VC(C_META_ORDER.full, [], z3.BoolVal(ok), C_META_ORDER.props))

    # ---- provenance
    src = res._d.get('sources')
    if (on(C_SRC_WF) or on(C_SRC_EXACT) or on(C_DEPTHS)) and isinstance(src, SymDict):
        ent, dep = src_entries(src)
        dep_keys = [k for k, _ in dep.items_] if isinstance(dep, SymDict) else []
        if on(C_SRC_WF):
            for p in rparams:
                out.append(VC(C_SRC_WF.full + ':entry_for:%s' % p._d.get('_vf_tag', '?'), [],
                              z3.Or(*[key_eq(k, name_term(p)) for k, _ in ent]), C_SRC_WF.props))
            for k, lst in ent:
                kt = k.t if isinstance(k, SymName) else k
                tag = ':%s' % (k,)
                out.append(VC(C_SRC_WF.full + ':key_is_parameter' + tag, [],
                              z3.Or(*[key_eq(k, name_term(p)) for p in rparams]), C_SRC_WF.props))
                lst = list(lst)
                out.append(VC(C_SRC_WF.full + ':nonempty' + tag, [], z3.BoolVal(len(lst) > 0), C_SRC_WF.props))
                if len(lst) > 1:
                    out.append(VC(C_SRC_WF.full + ':duplicate_free' + tag, [], z3.Distinct(*[f.t for f in lst]), C_SRC_WF.props))
                for f in lst:
                    out.append(VC(C_SRC_WF.full + ':has_depth' + tag, [], z3.Or(*[f.t == dk.t for dk in dep_keys]), C_SRC_WF.props))
                    declares = z3.Or(*[z3.And(f.t == inf.funcs[0].t, z3.Or(*[Z3Ops.eq(kt, n) for n in inf.names]))
                                       for inf in infos])
                    out.append(VC(C_SRC_WF.full + ':declared' + tag, [], declares, C_SRC_WF.props))
        if on(C_SRC_EXACT):
            for p in rparams:
                if p.kind not in (PO, POK, KWO):
                    continue
                nt = name_term(p)
                for k, lst in ent:
                    # under key == this parameter's name
                    for inf in infos:
                        # the callable of this input is listed iff it (possibly through another input that
                        # carries the same callable) declares the name
                        declared = z3.Or(*[z3.And(inf2.funcs[0].t == inf.funcs[0].t, z3.Or(*[Z3Ops.eq(nt, n) for n in inf2.names]))
                                           for inf2 in infos])
                        listed = z3.Or(*[f.t == inf.funcs[0].t for f in lst])
                        out.append(VC(C_SRC_EXACT.full + ':%s:%s' % (p._d.get('_vf_tag', '?'), inf.side),
                                      [key_eq(k, nt), rc, aligned], declared == listed, C_SRC_EXACT.props))
        if on(C_DEPTHS) and isinstance(dep, SymDict):
            for inf in infos:
                for j, f_ in enumerate(inf.funcs):
                    out.append(VC(C_DEPTHS.full + ':has:%s%s' % (inf.side, '' if j == 0 else '#%d' % j), [], z3.Or(*[dk.t == f_.t for dk in dep_keys]), C_DEPTHS.props))
            for dk, dv in dep.items_:
                cands = [(f_.t, d_) for inf in infos for f_, d_ in zip(inf.funcs, inf.depth_terms)]
                # the minimum over the inputs that know this callable
                goal = z3.And(z3.Or(*[dk.t == f for f, _ in cands]),
                              *[z3.Implies(dk.t == f, sym.zint(dv) <= d) for f, d in cands])
                goal = z3.And(goal, z3.Or(*[z3.And(dk.t == f, sym.zint(dv) == d) for f, d in cands]))
                out.append(VC(C_DEPTHS.full + ':min:%s' % (dk,), [], goal, C_DEPTHS.props))
    if on(C_FRESH):
        ok = True
        why = None
        if isinstance(src, SymDict):
            if sym.input_label(src):
                ok, why = False, sym.input_label(src)
            for k, v in src.items_:
                if sym.input_label(v):
                    ok, why = False, sym.input_label(v)
        env['fresh_why'] = why
        out.append(VC(C_FRESH.full, [], z3.BoolVal(ok), C_FRESH.props))
    return out


def _same_params(a_list, b_list, star_names=True):
    """z3 condition: same parameters position by position (None when the spines differ)"""
    if len(a_list) != len(b_list):
        return None
    cs = []
    for p, q in zip(a_list, b_list):
        if p.kind != q.kind:
            return None
        if star_names or p.kind not in (VP, VK):
            cs.append(Z3Ops.eq(name_term(p), name_term(q)))
        for k in ('_default', '_annotation'):
            x, y = p._d[k], q._d[k]
            cs.append(x.has == y.has)
            cs.append(z3.Implies(x.has, x.val == y.val))
    return z3.And(*cs) if cs else z3.BoolVal(True)


def _same_return(a, b):
    x, y = a._d['_return_annotation'], b._d['_return_annotation']
    return z3.And(x.has == y.has, z3.Implies(x.has, x.val == y.val))


def _same_sources(a, b, as_sets=False):
    """provenance maps equal: same keys, same lists (as sets when asked), same depths; None when spines differ"""
    if not (isinstance(a, SymDict) and isinstance(b, SymDict)):
        return None
    ea, da = src_entries(a)
    eb, db = src_entries(b)
    if len(ea) != len(eb):
        return None
    cs = []
    for k, v in ea:
        alts = []
        for k2, v2 in eb:
            ke = key_eq(k, k2.t if isinstance(k2, SymName) else k2)
            if as_sets:
                alts.append(z3.And(ke, *[z3.Or(*[x.t == y.t for y in v2]) for x in v], *[z3.Or(*[x.t == y.t for x in v]) for y in v2]) if v and v2 else z3.And(ke, z3.BoolVal(len(v) == len(v2))))
            elif len(v) == len(v2):
                alts.append(z3.And(ke, *[x.t == y.t for x, y in zip(v, v2)]))
        if not alts:
            return None
        cs.append(z3.Or(*alts))
    if (da is None) != (db is None):
        return None
    if da is not None:
        for f, d in da.items_:
            cs.append(z3.Or(*[z3.And(f.t == f2.t, sym.zint(d) == sym.zint(d2)) for f2, d2 in db.items_]) if db.items_ else z3.BoolVal(False))
        for f2, d2 in db.items_:
            cs.append(z3.Or(*[f.t == f2.t for f, _ in da.items_]) if da.items_ else z3.BoolVal(False))
    return z3.And(*cs) if cs else z3.BoolVal(True)


def law_vcs(env, want):
    """relational clauses of C09: several runs on one path condition"""
    r = env['r']
    mode = env['mode']
    out = []

    def on(c):
        return want is None or any(p in want for p in c.props)

    EmptyAnn = env['interp'].module('sigtools._signatures').ns['EmptyAnnotation']

    def same_ua(x, y):
        # what UpgradedAnnotation.__eq__ compares: both absent, or both present and denoting the same object
        h1, d1 = ua_denotes(x, EmptyAnn)
        h2, d2 = ua_denotes(y, EmptyAnn)
        return z3.And(h1 == h2, z3.Implies(h1, d1 == d2))

    def eqsig(c, tag, a, b, params=True, ret=True, sources=None, star_names=True, ua=False):
        """both outcomes are ('return', sig) | ('raise', exc)"""
        if a[0] != b[0]:
            out.append(VC(c.full + tag + ':same_outcome', env.get('law_assume', []), z3.BoolVal(False), c.props))
            return
        if a[0] == 'raise':
            return
        sa, sb = a[1], b[1]
        pa, pb = sa._d['_parameters'].plist, sb._d['_parameters'].plist
        t = _same_params(pa, pb, star_names)
        goals = [t if t is not None else z3.BoolVal(False)]
        if ret:
            goals.append(_same_return(sa, sb))
        if ua and t is not None:
            # "equals" is the library's own ==, which also compares the upgraded annotations (what they denote)
            goals += [same_ua(p._d['upgraded_annotation'], q._d['upgraded_annotation']) for p, q in zip(pa, pb)]
            if ret:
                goals.append(same_ua(sa._d['upgraded_return_annotation'], sb._d['upgraded_return_annotation']))
        if sources is not None:
            s = _same_sources(sa._d.get('sources'), sb._d.get('sources'), as_sets=(sources == 'sets'))
            goals.append(s if s is not None else z3.BoolVal(False))
        out.append(VC(c.full + tag, env.get('law_assume', []), z3.And(*goals), c.props))
    runs = env['runs']
    inp = ('return', env['infos'][0].sig)
    if mode == 'unary' and on(L_UNARY):
        eqsig(L_UNARY, '', runs[0], inp, sources='lists', ua=True)
        if runs[0][0] == 'return':
            src = runs[0][1]._d.get('sources')
            out.append(VC(L_UNARY.full + ':fresh_provenance', [], z3.BoolVal(isinstance(src, SymDict) and not sym.input_label(src)), L_UNARY.props))
    elif mode == 'idem' and on(L_IDEM):
        eqsig(L_IDEM, '', runs[0], inp, ua=True)
    elif mode in ('neutral_l', 'neutral_r') and on(L_NEUTRAL):
        main = ('return', env['infos'][1 if mode == 'neutral_l' else 0].sig)
        eqsig(L_NEUTRAL, ':' + mode, runs[0], main, star_names=False, ret=False, ua=True)      # (the return annotation is the first signature's by design)
    elif mode in ('roundtrip', 'roundtrip_sources') and on(L_ROUND):
        eqsig(L_ROUND, ':' + mode, runs[0], inp, sources='lists', ua=True)
        if runs[0][0] == 'return' and mode == 'roundtrip_sources':
            src = runs[0][1]._d.get('sources')
            fresh = isinstance(src, SymDict) and not sym.input_label(src) and not any(sym.input_label(v) for _, v in src.items_)
            out.append(VC(L_ROUND.full + ':fresh_copy', [], z3.BoolVal(bool(fresh)), L_ROUND.props))
    elif mode == 'roundtrip_given_sources' and on(L_ROUND):
        ok = runs[0][0] == 'return' and runs[0][1]._d.get('sources') is env['given']
        out.append(VC(L_ROUND.full + ':carries_the_provenance_map_it_was_given', [], z3.BoolVal(bool(ok)), L_ROUND.props))
    elif mode == 'foldlaw' and on(L_FOLD):
        eqsig(L_FOLD, '', runs[0], runs[1], sources='lists')
    return out


def make_runner(shapes_, want=None, alias_funcs=True, wf_inputs=True, mode='merge', bare_first=False, extra_callable=False):
    """returns (run(ctx, r), env) for merge over input signatures of the given shapes"""
    I = Interp()
    from vf import world as _world
    _world.install_externals(I, {})     # eval(expression, f.__globals__) is the uninterpreted evalin
    install_concile_summary(I)
    m = I.module('sigtools._signatures')
    env = {'interp': I}

    def boundary(interp_, clo, frame, oc):
        # state of the merger object at the exit of __iter__ (the iterator it returns is not consumed here)
        self_ = frame.vars.get('self')
        try:
            d = self_._d
            l_sp, r_sp = d['l'], d['r']
            if oc[0] == 'return':
                rec = ('return', (d['posargs'], d['pokargs'], d['varargs'], d['kwoargs'], d['varkwargs'], d['src']))
            else:
                rec = ('raise', oc[1])
        except (KeyError, AttributeError):
            env['merger_absent'] = True      # refactored away: obligations 'unit absent, subsumed'
            return
        env['merger_calls'].append((l_sp, r_sp, rec))
    I.boundary_hooks['_signatures:_Merger.__iter__'] = boundary

    env['mode'] = mode

    def call(fn, *a, **k):
        try:
            return ('return', I.call(fn, list(a), list(k.items())))
        except PyExc as e:
            return ('raise', e)

    def run_law(ctx, r):
        env['merger_calls'] = []
        env['r'] = r
        merge = m.ns['merge']
        if mode in ('neutral_l', 'neutral_r'):
            bare = (0, 0, 1, 0, 1)
            shs = [bare, shapes_[0]] if mode == 'neutral_l' else [shapes_[0], bare]
        elif mode == 'idem':
            shs = [shapes_[0]]
        else:
            shs = list(shapes_)
        infos = [mk_sig(I, ctx, 's%d' % i, sh) for i, sh in enumerate(shs)]
        for a, b in itertools.combinations(infos, 2):
            ctx.add(a.funcs[0].t != b.funcs[0].t)
        env['infos'] = infos
        r.inputs = infos
        sigs = [i.sig for i in infos]
        env['law_assume'] = []
        if mode == 'unary':
            env['runs'] = [call(merge, sigs[0])]
        elif mode == 'idem':
            env['runs'] = [call(merge, sigs[0], sigs[0])]
        elif mode in ('neutral_l', 'neutral_r'):
            bare_info = infos[0 if mode == 'neutral_l' else 1]
            # "bare": no annotations on the star parameters
            other = infos[1 if mode == 'neutral_l' else 0]
            env['law_assume'] = [z3.Not(p._d['_annotation'].has) for p in bare_info.params] + \
                [a != b for a in bare_info.names for b in other.names]       # its star names clash with nothing
            env['runs'] = [call(merge, *sigs)]
        elif mode in ('roundtrip', 'roundtrip_sources'):
            sp = call(m.ns['sort_params'], sigs[0], **({'sources': True} if mode == 'roundtrip_sources' else {}))
            env['runs'] = [call(m.ns['apply_params'], sigs[0], *sp[1]) if sp[0] == 'return' else sp]
        elif mode == 'roundtrip_given_sources':
            # apply_params with a provenance map of the caller's own - possibly an empty one
            sp = call(m.ns['sort_params'], sigs[0])
            given = SymDict()
            if ctx.decide(z3.Bool('given_map_has_an_entry')):
                given.items_ = [('+depths', SymDict())]
            env['given'] = given
            env['runs'] = [call(m.ns['apply_params'], sigs[0], *sp[1], sources=given) if sp[0] == 'return' else sp]
        elif mode == 'foldlaw':
            views = [sig_view(s) for s in sigs]
            # 'shared names keep their role': same kind at the same positional index (C01's wording), same class
            env['law_assume'] = [spec.roles_kept(Z3Ops, views), spec.role_consistent(Z3Ops, views)]
            ab = call(merge, sigs[0], sigs[1])
            nested = call(merge, ab[1], sigs[2]) if ab[0] == 'return' else ab
            flat = call(merge, *sigs)
            env['runs'] = [flat, nested]
        oc = env['runs'][0]
        r.outcome = oc[0]
        if oc[0] == 'return':
            r.value = oc[1]
        else:
            r.exc = oc[1]

    def run(ctx, r):
        if mode != 'merge':
            return run_law(ctx, r)
        env['merger_calls'] = []
        # extra_callable: every input's provenance knows a second callable (signatures that are themselves results of
        # forwarding); it MAY be the defining function of another input, at any depth
        infos = [mk_sig(I, ctx, 's%d' % i, sh, nfuncs=2 if extra_callable else 1) for i, sh in enumerate(shapes_)]
        env['extra_callable'] = extra_callable
        for a, b in itertools.combinations(infos, 2):
            same = harness.same_signature_term(a, b) if (alias_funcs and not extra_callable) else None
            if same is None:
                ctx.add(a.funcs[0].t != b.funcs[0].t)
            else:
                # two inputs may carry the SAME callable only when they are the same signature (merge(s, s))
                ctx.add(z3.Implies(a.funcs[0].t == b.funcs[0].t, same))
        env['infos'] = infos
        env['r'] = r
        r.inputs = infos
        env['bare_first'] = bare_first
        if bare_first:
            # the first input was assembled by hand from parameters: it carries no provenance at all (sources == {})
            harness.strip_provenance(infos[0])
        run_unit(I, m.ns['merge'], [i.sig for i in infos], [], r)
    return run, env


def vcs(env, want):
    if env.get('mode', 'merge') != 'merge':
        return law_vcs(env, want)
    return merge_vcs(env, want)


# --------------------------------------------------------------------------- native replay and cross-check
def _short(name):
    return name.split('/', 1)[1].split('#')[0] if '/' in name else name


def law_replay(env, vc, model):
    from vf.concrete import Concretizer, sig_str, real_sigtools
    from vf import rt
    real_sigtools()
    from sigtools import _signatures
    conc = Concretizer(model)
    mode = env['mode']
    sigs = [conc.build_sig(i) for i in env['infos']]
    def uad(s):
        # what the upgraded annotations denote (the library's == compares exactly that)
        def val(u):
            try:
                return ('value', u.source_value())
            except Exception as e:
                return ('raises', type(e).__name__)
        return [val(p.upgraded_annotation) for p in s.parameters.values()], val(s.upgraded_return_annotation)
    sd_plain = lambda s: (rt.params_data(s), s.return_annotation)
    sd = lambda s: (rt.params_data(s), s.return_annotation, uad(s))

    def srcd(s):
        return ({k: [id(f) for f in v] for k, v in s.sources.items() if k != '+depths'}, {id(f): d for f, d in s.sources.get('+depths', {}).items()})
    bad = []
    try:
        if mode == 'unary':
            got, exp = _signatures.merge(sigs[0]), sigs[0]
            if sd(got) != sd(exp) or srcd(got) != srcd(exp):
                bad.append(('law:unary_identity', '%s vs %s' % (got, exp)))
        elif mode == 'idem':
            got = _signatures.merge(sigs[0], sigs[0])
            if sd(got) != sd(sigs[0]):
                bad.append(('law:idempotent', '%s vs %s' % (got, sigs[0])))
        elif mode in ('neutral_l', 'neutral_r'):
            got = _signatures.merge(*sigs)
            main = sigs[1 if mode == 'neutral_l' else 0]
            strip = lambda s: [(n if k not in (2, 4) else '*', k, d, a) for (n, k, d, a) in [(p.name, int(p.kind), p.default, p.annotation) for p in s.parameters.values()]]
            if strip(got) != strip(main) or uad(got)[0] != uad(main)[0]:
                bad.append(('law:bare_stars_neutral', '%s vs %s' % (got, main)))
        elif mode in ('roundtrip', 'roundtrip_sources'):
            sp = _signatures.sort_params(sigs[0], sources=True) if mode == 'roundtrip_sources' else _signatures.sort_params(sigs[0])
            got = _signatures.apply_params(sigs[0], *sp)
            if sd(got) != sd(sigs[0]) or srcd(got) != srcd(sigs[0]):
                bad.append(('law:sort_apply_round_trip', '%s vs %s' % (got, sigs[0])))
            if mode == 'roundtrip_sources' and (got.sources is sigs[0].sources or any(v is sigs[0].sources.get(k) for k, v in got.sources.items())):
                bad.append(('law:sort_apply_round_trip', 'provenance containers shared with the input'))
        elif mode == 'roundtrip_given_sources':
            for given in ({}, {'+depths': {}}):
                got = _signatures.apply_params(sigs[0], *_signatures.sort_params(sigs[0]), sources=given)
                if got.sources is not given:
                    bad.append(('law:sort_apply_round_trip', 'apply_params(sig, ..., sources=%r) carries %r%s' % (
                        given, got.sources, ' - the very map of the input signature' if got.sources is sigs[0].sources else '')))
        elif mode == 'foldlaw':
            oc1 = rt.run_real(_signatures.merge, *sigs)
            oc2 = rt.run_real(lambda: _signatures.merge(_signatures.merge(sigs[0], sigs[1]), sigs[2]))
            if oc1[0] != oc2[0]:
                bad.append(('law:fold', 'merge(a, b, c): %s, merge(merge(a, b), c): %s' % (oc1, oc2)))
            elif oc1[0] == 'return' and (sd_plain(oc1[1]) != sd_plain(oc2[1]) or srcd(oc1[1]) != srcd(oc2[1])):
                bad.append(('law:fold', '%s with %s vs %s with %s' % (oc1[1], srcd(oc1[1]), oc2[1], srcd(oc2[1]))))
    except Exception as e:
        bad.append(('law', 'raised %r' % (e,)))
    key = ':'.join(vc.name.split('/', 1)[1].split(':')[:2])
    hit = [b for b in bad if b[0] == key]
    return dict(status='reproduced' if hit else ('other-violation' if bad else 'not-reproduced'), op='merge-law:' + mode, inputs=[sig_str(s) for s in sigs],
                violated=[list(b) for b in (hit or bad)])


def replay(env, vc, model):
    """concretise the counterexample and run the REAL merge on it; evaluate the concrete contracts"""
    if env.get('mode', 'merge') != 'merge':
        return law_replay(env, vc, model)
    from vf.concrete import Concretizer, sig_str, real_sigtools
    from vf import rt
    real_sigtools()
    from sigtools import _signatures
    conc = Concretizer(model)
    infos = env['infos']
    sigs = [conc.build_input(i) for i in infos]
    conc.add_extra_callables(infos, sigs)
    import re as _re
    mstep = _re.search(r'#step(\d+)', vc.name)
    if mstep and vc.name.startswith(UM):
        # a clause of the merger step k: its native witness is the fold up to and including that step
        sigs = sigs[:int(mstep.group(1)) + 1]
        infos = infos[:len(sigs)]
    call = conc.call(env['call']) if env.get('call') is not None else None
    before = [rt.snapshot_sig(s) for s in sigs]
    oc = rt.run_real(_signatures.merge, *sigs)
    after = [rt.snapshot_sig(s) for s in sigs]
    bad = rt.check_merge(sigs, oc)
    if oc[0] == 'return':
        bad += rt.check_merge_meta(sigs, oc[1])
        res = oc[1]
        if any(res.sources is s.sources for s in sigs) or any(v is v2 for k, v in res.sources.items() for s in sigs for v2 in s.sources.values()):
            bad.append(('frame:fresh_sources', 'shared provenance container'))
    if before != after:
        bad.append(('frame:inputs_unchanged', 'input snapshot differs'))
    short = _short(vc.name)
    key = ':'.join(short.split(':')[:2])
    if vc.name.startswith(UM):
        key = key.replace('__iter__/', '')
    hit = [b for b in bad if b[0].startswith(key)]
    status = 'reproduced' if hit else ('other-violation' if bad else 'not-reproduced')
    return dict(status=status, op='merge', inputs=[sig_str(s) for s in sigs], specs=[conc.param_specs(i) for i in infos],
                depths=[conc.integer(i.depth_terms[0]) for i in infos],
                same_callable=[[conc.refkey(a.funcs[0]) == conc.refkey(b.funcs[0]) for b in infos] for a in infos],
                call=call, native_outcome=(sig_str(oc[1]) if oc[0] == 'return' else repr(oc[1])),
                violated=[list(b) for b in (hit or bad)[:8]])


def sym_sig_data(conc, sig):
    """(params, sources, depths) of a symbolic result under a model"""
    ps = []
    for p in sig._d['_parameters'].plist:
        d = p._d
        has = conc.boolean(d['_default'].has)
        ahas = conc.boolean(d['_annotation'].has)
        ps.append((conc.name(d['_name']), d['_kind'], has, conc.val(d['_default'].val) if has else None,
                   ahas, conc.val(d['_annotation'].val) if ahas else None))
    src = {}
    dep = {}
    s = sig._d.get('sources')
    if isinstance(s, SymDict):
        for k, v in s.items_:
            if isinstance(k, str) and k == '+depths':
                for f, dv in v.items_:
                    dep[conc.refkey(f)] = conc.integer(dv)
            else:
                src[conc.name(k)] = [conc.refkey(f) for f in v]
    return ps, src, dep


def real_sig_data(sig, fkey):
    from vf.concrete import ann_raw
    ps = []
    for p in sig.parameters.values():
        has = p.default is not p.empty
        ahas = p.annotation is not p.empty
        ps.append((p.name, int(p.kind), has, p.default if has else None, ahas, ann_raw(p.annotation) if ahas else None))
    src = {k: [fkey(f) for f in v] for k, v in sig.sources.items() if k != '+depths'}
    dep = {fkey(f): d for f, d in sig.sources.get('+depths', {}).items()}
    return ps, src, dep


def crosscheck(env, r):
    """differential check of the generator against CPython on this path: one concrete witness of the path
    condition is run through the REAL function and the outcomes are compared"""
    if env.get('mode', 'merge') != 'merge' or env.get('bare_first'):
        return None
    from vf.concrete import Concretizer, real_sigtools
    from vf import rt
    real_sigtools()
    from sigtools import _signatures
    s = r.ctx.solver
    if s.check() != z3.sat:
        return 'path condition not satisfiable at path end'
    conc = Concretizer(s.model())
    infos = env['infos']
    keys = [conc.refkey(i.funcs[0]) for i in infos]
    specs = [conc.param_specs(i) for i in infos]
    for a in range(len(infos)):
        for b in range(a + 1, len(infos)):
            if keys[a] == keys[b] and specs[a] != specs[b]:
                return None      # same callable with two parameter lists: no native counterpart
    sigs = [conc.build_sig(i) for i in infos]
    fmap = {}
    for i, sg in zip(infos, sigs):
        for f in sg.sources['+depths']:
            fmap[id(f)] = conc.refkey(i.funcs[0])
    oc = rt.run_real(_signatures.merge, *sigs)
    if r.outcome == 'raise':
        if oc[0] != 'raise':
            return 'symbolic raise %s, native returned %s on %s' % (r.exc.typname, oc[1], [str(x) for x in sigs])
        if type(oc[1]).__name__ != r.exc.typname:
            return 'symbolic raise %s, native raise %r on %s' % (r.exc.typname, oc[1], [str(x) for x in sigs])
        return None
    if oc[0] == 'raise':
        return 'symbolic return, native raise %r on %s' % (oc[1], [str(x) for x in sigs])
    a = sym_sig_data(conc, r.value)
    b = real_sig_data(oc[1], lambda f: fmap.get(id(f), '?'))
    if a != b:
        return 'results differ on %s: symbolic %r native %r' % ([str(x) for x in sigs], a, b)
    return None
