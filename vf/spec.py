"""The specification library: CPython's argument binding on call shapes and the predicates the property
texts are written in.  Every function takes an ``ops`` object so that the SAME definition is evaluated
symbolically (Z3Ops -> z3 terms, used in verification conditions) and concretely (PyOps -> bool, used by
the replay harness, the runtime tier and the spec-vs-CPython validation).
"""
import z3

PO, POK, VP, KWO, VK = range(5)


_CTX = z3.main_ctx()
_REF = _CTX.ref()
_TRUE = z3.BoolVal(True)
_FALSE = z3.BoolVal(False)


def _b(x):
    if x is True:
        return _TRUE
    if x is False:
        return _FALSE
    return x


def _mk_nary(fn, xs):
    n = len(xs)
    arr = (z3.Ast * n)()
    for i, x in enumerate(xs):
        arr[i] = x.ast
    return z3.BoolRef(fn(_REF, n, arr), _CTX)


class Z3Ops:
    """term constructors going straight to the z3 C API (the Python wrappers' coercions dominate otherwise)"""
    symbolic = True
    true = _TRUE
    false = _FALSE

    @staticmethod
    def And(*xs):
        ys = []
        for x in xs:
            if x is True:
                continue
            if x is False:
                return _FALSE
            ys.append(x)
        if not ys:
            return _TRUE
        if len(ys) == 1:
            return ys[0]
        return _mk_nary(z3.Z3_mk_and, ys)

    @staticmethod
    def Or(*xs):
        ys = []
        for x in xs:
            if x is False:
                continue
            if x is True:
                return _TRUE
            ys.append(x)
        if not ys:
            return _FALSE
        if len(ys) == 1:
            return ys[0]
        return _mk_nary(z3.Z3_mk_or, ys)

    _not_memo = {}

    @staticmethod
    def Not(x):
        if x is True:
            return _FALSE
        if x is False:
            return _TRUE
        return z3.BoolRef(z3.Z3_mk_not(_REF, x.ast), _CTX)

    @staticmethod
    def Implies(a, b):
        a, b = _b(a), _b(b)
        return z3.BoolRef(z3.Z3_mk_implies(_REF, a.ast, b.ast), _CTX)

    @staticmethod
    def Iff(a, b):
        a, b = _b(a), _b(b)
        return z3.BoolRef(z3.Z3_mk_eq(_REF, a.ast, b.ast), _CTX)

    @staticmethod
    def b(x):
        return _b(x)

    @staticmethod
    def i(x):
        return z3.IntVal(x) if isinstance(x, int) else x

    @staticmethod
    def le(a, b):
        return Z3Ops.i(a) <= Z3Ops.i(b)

    @staticmethod
    def lt(a, b):
        return Z3Ops.i(a) < Z3Ops.i(b)

    _eq_memo = {}

    @staticmethod
    def eq(a, b):
        if isinstance(a, str) or isinstance(b, str):
            # concrete string literal against a symbolic name: ASSUMPTION NAMES (never equal)
            return _TRUE if (isinstance(a, str) and isinstance(b, str) and a == b) else _FALSE
        if isinstance(a, int) or isinstance(b, int):
            return Z3Ops.i(a) == Z3Ops.i(b)
        k = (a.get_id(), b.get_id())
        memo = Z3Ops._eq_memo
        r = memo.get(k)
        if r is None:
            if len(memo) > 200000:
                memo.clear()
            r = _TRUE if k[0] == k[1] else z3.BoolRef(z3.Z3_mk_eq(_REF, a.ast, b.ast), _CTX)
            memo[k] = r
            memo[(k[1], k[0])] = r
        return r

    @staticmethod
    def add(a, b):
        return Z3Ops.i(a) + Z3Ops.i(b)


class PyOps:
    symbolic = False
    true = True
    false = False

    @staticmethod
    def And(*xs):
        return all(xs)

    @staticmethod
    def Or(*xs):
        return any(xs)

    @staticmethod
    def Not(x):
        return not x

    @staticmethod
    def Implies(a, b):
        return (not a) or bool(b)

    @staticmethod
    def Iff(a, b):
        return bool(a) == bool(b)

    @staticmethod
    def le(a, b):
        return a <= b

    @staticmethod
    def lt(a, b):
        return a < b

    @staticmethod
    def eq(a, b):
        return a == b

    @staticmethod
    def add(a, b):
        return a + b


class P:
    """parameter view: name, kind (concrete), has_default (ops bool)"""
    __slots__ = ('name', 'kind', 'has', 'obj')

    def __init__(self, name, kind, has, obj=None):
        self.name = name
        self.kind = kind
        self.has = has
        self.obj = obj

    def __repr__(self):
        return 'P(%r,%d,%r)' % (self.name, self.kind, self.has)


class View:
    """signature view: ordered parameter list"""

    def __init__(self, params):
        self.params = list(params)
        self.pos = [p for p in self.params if p.kind in (PO, POK)]
        self.kwo = [p for p in self.params if p.kind == KWO]
        self.va = next((p for p in self.params if p.kind == VP), None)
        self.vk = next((p for p in self.params if p.kind == VK), None)
        self.V = self.va is not None
        self.W = self.vk is not None

    def kw_passable(self):
        return [p for p in self.params if p.kind in (POK, KWO)]

    def names(self):
        return [p.name for p in self.params]

    def named(self):
        return [p for p in self.params if p.kind in (PO, POK, KWO)]

    def __repr__(self):
        return 'View(%r)' % (self.params,)


def view_of_buckets(posargs, pokargs, varargs, kwoargs_values, varkwargs, mk):
    """view of a SortedParameters-like record AS CLASSIFIED (a parameter counts for the bucket it sits in only
    if its kind agrees - bucket_consistent is a separate predicate)"""
    ps = [mk(p) for p in posargs] + [mk(p) for p in pokargs]
    if varargs:
        ps.append(mk(varargs))
    ps += [mk(p) for p in kwoargs_values]
    if varkwargs:
        ps.append(mk(varkwargs))
    return View(ps)


class CallShape:
    """a call shape (n, S): n positional arguments, S a finite set of keyword names.
    symbolic: n is a z3 Int, S is given by candidate terms with one Boolean each (S(x) = OR_t b_t & x == t)
    concrete: n int, cands = [(True, k) for k in S]"""

    def __init__(self, ops, n, cands):
        self.ops = ops
        self.n = n
        self.cands = list(cands)

    def S(self, x):
        o = self.ops
        if not o.symbolic:
            return o.Or(*[o.And(b, o.eq(x, t)) for b, t in self.cands])
        memo = self.__dict__.setdefault('_s_memo', {})
        k = x.get_id() if hasattr(x, 'get_id') else x
        r = memo.get(k)
        if r is None:
            r = o.Or(*[o.And(b, o.eq(x, t)) for b, t in self.cands])
            memo[k] = r
        return r

    def any_kw(self):
        return self.ops.Or(*[b for b, _ in self.cands])

    def plus(self, extra_n, extra_names):
        """(n + extra_n, S u extra_names)"""
        o = self.ops
        return CallShape(o, o.add(self.n, extra_n), self.cands + [(o.true, t) for t in extra_names])


def accepts(ops, v, c):
    """CPython's argument binding decided on call shapes (REAL CALL semantics: a positional-only name passed by
    keyword lands in **kwargs when there is one)."""
    o = ops
    cs = []
    if not v.V:
        cs.append(o.le(c.n, len(v.pos)))
    for i, p in enumerate(v.pos):
        filled = o.lt(i, c.n)
        if p.kind == POK:
            s = c.S(p.name)
            cs.append(o.Not(o.And(filled, s)))
            cs.append(o.Or(p.has, filled, s))
        else:
            cs.append(o.Or(p.has, filled))
    for p in v.kwo:
        cs.append(o.Or(p.has, c.S(p.name)))
    kwn = [p.name for p in v.kw_passable()]
    if not v.W:
        for b, t in c.cands:
            cs.append(o.Implies(b, o.Or(*[o.eq(t, k) for k in kwn])))
    return o.And(*cs)


def pure(ops, c):
    return ops.Or(ops.eq(c.n, 0) if not ops.symbolic else c.n == 0, ops.Not(c.any_kw()))


def noncolliding(ops, res, inputs, c):
    """every keyword used is a keyword-passable parameter of the result or is not a parameter name (of any
    kind, stars included) of any input"""
    o = ops
    kwn = [p.name for p in res.kw_passable()]
    alln = [nm for v in inputs for nm in v.names()]
    cs = []
    for b, t in c.cands:
        cs.append(o.Implies(b, o.Or(o.Or(*[o.eq(t, k) for k in kwn]), o.And(*[o.Not(o.eq(t, x)) for x in alln]))))
    return o.And(*cs)


def role_consistent(ops, views):
    """every name shared between two inputs denotes the same kind of parameter at the same positional index"""
    o = ops
    cs = []
    for i, a in enumerate(views):
        ai = {id(p): k for k, p in enumerate(a.pos)}
        for b in views[i + 1:]:
            bi = {id(p): k for k, p in enumerate(b.pos)}
            for p in a.params:
                for q in b.params:
                    same = p.kind == q.kind and (p.kind not in (PO, POK) or ai[id(p)] == bi[id(q)])
                    if not same:
                        cs.append(o.Not(o.eq(p.name, q.name)))
    return o.And(*cs)


def klass(kind):
    return 'pos' if kind in (PO, POK) else ('kwo' if kind == KWO else ('va' if kind == VP else 'vk'))


def roles_kept(ops, views):
    """shared names stay in the same class (positional / keyword-only / *args / **kwargs)"""
    o = ops
    cs = []
    for i, a in enumerate(views):
        for b in views[i + 1:]:
            for p in a.params:
                for q in b.params:
                    if klass(p.kind) != klass(q.kind):
                        cs.append(o.Not(o.eq(p.name, q.name)))
    return o.And(*cs)


def name_aligned(ops, a, b):
    """positional parameters have equal names position by position; a positional name of one does not
    occur at another position of the other"""
    o = ops
    cs = []
    for i, p in enumerate(a.pos):
        for j, q in enumerate(b.pos):
            if i == j:
                cs.append(o.eq(p.name, q.name))
            else:
                cs.append(o.Not(o.eq(p.name, q.name)))
    return o.And(*cs)


def wf(ops, v):
    """what inspect.Signature validates: kind order (concrete), unique names, no required positional after an
    optional one"""
    o = ops
    kinds = [p.kind for p in v.params]
    if kinds != sorted(kinds):
        return o.false
    if sum(1 for k in kinds if k == VP) > 1 or sum(1 for k in kinds if k == VK) > 1:
        return o.false
    cs = []
    ps = v.params
    for i in range(len(ps)):
        for j in range(i + 1, len(ps)):
            cs.append(o.Not(o.eq(ps[i].name, ps[j].name)))
    for i in range(len(v.pos)):
        for j in range(i + 1, len(v.pos)):
            cs.append(o.Implies(v.pos[i].has, v.pos[j].has))
    return o.And(*cs)


def min_call(ops, v):
    """the witness call for 'some call exists': required positionals positionally, required kwo by name.
    returns CallShape (concrete n = index of last required positional + 1 is symbolic in general, so we
    return constraints instead): (n_expr_constraints) - used through exists_call below."""
    raise NotImplementedError


def some_call_exists(ops, v):
    """does any call shape satisfy accepts(v, .)?  True for every wf signature: pass every required
    positional positionally and every required keyword-only by name. (wf => callable)"""
    return wf(ops, v)
