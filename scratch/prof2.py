import sys, cProfile, pstats
sys.path.insert(0, '/verif')
from vf import runner
task = dict(module='contracts.merge', want=['C01'], args=dict(shapes_=[(0,1,1,1,1),(1,1,0,0,1),(0,1,1,0,0)]))
cProfile.run("res = runner.run_task(task)", '/tmp/prof2.out')
print(res['paths'], res['obligations'], res['wall_s'], res['engine_errors'])
pstats.Stats('/tmp/prof2.out').sort_stats('tottime').print_stats(25)
