"""Contracts of sigtools._signatures.forwards (C04 algebra part; C08/C10/C11/C15/C16 clauses on its results).

 _signatures.forwards
   law:compose      C04  forwards(outer, inner, n, *names, flags) = embed(outer, mask(inner', n, *names, hide_args,
                         hide_kwargs, hide_varargs=False, hide_varkwargs=False), use_varargs, use_varkwargs) in parameters,
                         return annotation and provenance; inner' = inner, or every non-star parameter defaulted when partial
   post:sound       C04  no hide flag: every non-colliding call c (disjoint from names) the result accepts is accepted by
                         outer, and inner accepts (n + surplus positionals, names u surplus keywords); with partial=True
                         inner's parameters count as optional
   post:exact       C04  no hide flag, no partial, outer without defaulted positional parameter: the converse
   raises:only_ValueError / post:wellformed  C15 ; post:ua_follows C11 ; post:sources_wf C08 ; frame:* C16
"""
import itertools

import z3

from vf import sym, spec, harness
from vf.sym import MV, SymName, SymRef, SymInt, SymBool, SymDict, NONEVAL, PyExc, EngineLimit, NameS
from vf.spec import Z3Ops, P, View, CallShape, PO, POK, VP, KWO, VK
from vf.interp import Interp, Inst, IClass
from vf.harness import VC, mk_sig, mk_call, sig_view, pview, run_unit
from .common import FRAME_PROPS, clause, name_term, ua_denotes, stands_of, install_concile_summary, ua_follows_goal, ua_return_goal
from .merge import exc_is, src_entries, key_eq, sym_sig_data, real_sig_data
from .mask import flag_value, same_params_term, same_sources_term
from .embed import forwarded_call

U = '_signatures.forwards'
L_COMPOSE = clause(U, 'law:compose', ['C04'], 'B')
C_SOUND = clause(U, 'post:sound', ['C04', 'C07', 'C05'], 'B')    # also the narrowing step of discovery: accepted => the wrapper's own def accepts
C_EXACT = clause(U, 'post:exact', ['C04'], 'B')
C_ONLY_VE = clause(U, 'raises:only_ValueError', ['C15'], 'B')
C_WF = clause(U, 'post:wellformed', ['C15'], 'B')
C_UA = clause(U, 'post:ua_follows', ['C11'], 'B')
C_SRC_WF = clause(U, 'post:sources_wf', ['C08'], 'B')
C_DEPTHS = clause(U, 'post:depths', ['C08'], 'B')
C_META = clause(U, 'post:meta_partial_all_optional', ['C10'], 'B')
C_FRAME = clause(U, 'frame:inputs_unchanged', FRAME_PROPS, 'B')
C_FRESH = clause(U, 'frame:fresh_sources', FRAME_PROPS, 'B')

FLAGS = ('hide_args', 'hide_kwargs', 'use_varargs', 'use_varkwargs', 'partial')


def fwd_vcs(env, want):
    r = env['r']
    I = env['interp']
    ctx = r.ctx
    out = []

    def on(c):
        return want is None or any(p in want for p in c.props)

    m = I.module('sigtools._signatures')
    EmptyAnn = m.ns['EmptyAnnotation']
    UP = m.ns['UpgradedParameter']
    outer, inner = env['infos']
    fl = env['flag_values']
    n = env['n']
    names = env['names']
    name_terms = [x.t for x in names]
    ov, iv = sig_view(outer.sig), sig_view(inner.sig)
    if on(C_FRAME):
        out.append(VC(C_FRAME.full, [], z3.BoolVal(not ctx.heap_writes), C_FRAME.props))
    a, b = env['runs']
    if on(L_COMPOSE):
        if a[0] != b[0]:
            out.append(VC(L_COMPOSE.full + ':same_outcome', [], z3.BoolVal(False), L_COMPOSE.props))
        elif a[0] == 'raise':
            same = (a[1].typname == b[1].typname)
            out.append(VC(L_COMPOSE.full + ':same_outcome', [], z3.BoolVal(same), L_COMPOSE.props))
        else:
            t = same_params_term(a[1]._d['_parameters'].plist, b[1]._d['_parameters'].plist)
            out.append(VC(L_COMPOSE.full + ':parameters', [], t if t is not None else z3.BoolVal(False), L_COMPOSE.props))
            s = same_sources_term(a[1]._d.get('sources'), b[1]._d.get('sources'))
            out.append(VC(L_COMPOSE.full + ':provenance', [], s if s is not None else z3.BoolVal(False), L_COMPOSE.props))
            ra, rb = a[1]._d['_return_annotation'], b[1]._d['_return_annotation']
            out.append(VC(L_COMPOSE.full + ':return_annotation', [], z3.And(ra.has == rb.has, z3.Implies(ra.has, ra.val == rb.val)), L_COMPOSE.props))
    if r.outcome == 'raise':
        if on(C_ONLY_VE):
            out.append(VC(C_ONLY_VE.full + ':type', [], z3.BoolVal(exc_is(I, r.exc, 'ValueError')), C_ONLY_VE.props))
        return out
    res = r.value
    if not (isinstance(res, Inst) and '_parameters' in res._d):
        out.append(VC(C_WF.full + ':is_signature', [], z3.BoolVal(False), C_WF.props))
        return out
    rparams = res._d['_parameters'].plist
    rv = sig_view(res)
    if on(C_WF):
        ok = all(isinstance(p, Inst) and UP in p._cls.mro for p in rparams)
        src = res._d.get('sources')
        ok = ok and isinstance(src, SymDict) and src.get('+depths') is not None
        out.append(VC(C_WF.full + ':upgraded_with_depths', [], z3.BoolVal(bool(ok)), C_WF.props))
        out.append(VC(C_WF.full + ':valid', [], spec.wf(Z3Ops, rv), C_WF.props))
    nohide = not fl['hide_args'] and not fl['hide_kwargs']
    if (on(C_SOUND) or on(C_EXACT)) and nohide:
        call, ccons = mk_call(outer.names + inner.names + name_terms)
        env['call'] = call
        if fl['partial']:
            iv2 = View([P(p.name, p.kind, (Z3Ops.true if p.kind in (PO, POK, KWO) else p.has), obj=p.obj) for p in iv.params])
        else:
            iv2 = iv
        fwd = forwarded_call(call, ov, fl['use_varargs'], fl['use_varkwargs'])
        n_t = n.t if isinstance(n, SymInt) else z3.IntVal(n)
        inner_call = fwd.plus(n_t, name_terms)
        names_distinct = z3.Distinct(*name_terms) if len(name_terms) > 1 else z3.BoolVal(True)
        po_names = [p.name for p in iv.params if p.kind == PO]
        names_not_po = z3.And(*[t != q for t in name_terms for q in po_names]) if po_names and name_terms else z3.BoolVal(True)
        disjoint = z3.And(*[z3.Implies(bb, z3.And(*[Z3Ops.Not(Z3Ops.eq(t, x)) for x in name_terms])) for bb, t in call.cands]) \
            if name_terms else z3.BoolVal(True)
        nonc = spec.noncolliding(Z3Ops, rv, [ov, iv], call)
        rhs = z3.And(spec.accepts(Z3Ops, ov, call), spec.accepts(Z3Ops, iv2, inner_call))
        a_res = spec.accepts(Z3Ops, rv, call)
        pre = ccons + [names_distinct, names_not_po, disjoint, nonc]
        if on(C_SOUND):
            out.append(VC(C_SOUND.full, pre + [a_res], rhs, C_SOUND.props))
        if on(C_EXACT) and not fl['partial']:
            no_outer_default = [z3.Not(p.has) for p in ov.pos]
            out.append(VC(C_EXACT.full, pre + no_outer_default + [rhs], a_res, C_EXACT.props))
    if on(C_META) and fl['partial']:
        inner_ids = {id(p) for p in inner.params}
        for p in rparams:
            if p.kind in (PO, POK, KWO) and id(p._d.get('_vf_origin')) in inner_ids:
                out.append(VC(C_META.full + ':%s' % p._d.get('_vf_tag', '?'), [], p._d['_default'].has, C_META.props))
    if on(C_UA):
        for p in rparams:
            o = p._d.get('_vf_origin')
            cands = list({id(x): x for x in ([o] if o is not None else []) + stands_of(p)}.values())
            out.append(VC(C_UA.full + ':%s' % p._d.get('_vf_tag', '?'), [], ua_follows_goal(p, EmptyAnn, cands=cands), C_UA.props))
    src = res._d.get('sources')
    if isinstance(src, SymDict) and (on(C_SRC_WF) or on(C_DEPTHS)):
        ent, dep = src_entries(src)
        dep_keys = [k for k, _ in dep.items_] if isinstance(dep, SymDict) else []
        infos = [outer, inner]
        if on(C_SRC_WF):
            for p in rparams:
                out.append(VC(C_SRC_WF.full + ':entry_for:%s' % p._d.get('_vf_tag', '?'), [],
                              z3.Or(*[key_eq(k, name_term(p)) for k, _ in ent]), C_SRC_WF.props))
            for k, lst in ent:
                kt = k.t if isinstance(k, SymName) else k
                tag = ':%s' % (k,)
                out.append(VC(C_SRC_WF.full + ':key_is_parameter' + tag, [], z3.Or(*[key_eq(k, name_term(p)) for p in rparams]), C_SRC_WF.props))
                lst = list(lst)
                out.append(VC(C_SRC_WF.full + ':nonempty' + tag, [], z3.BoolVal(len(lst) > 0), C_SRC_WF.props))
                if len(lst) > 1:
                    out.append(VC(C_SRC_WF.full + ':duplicate_free' + tag, [], z3.Distinct(*[f.t for f in lst]), C_SRC_WF.props))
                for f in lst:
                    out.append(VC(C_SRC_WF.full + ':has_depth' + tag, [], z3.Or(*[f.t == dk.t for dk in dep_keys]), C_SRC_WF.props))
                    declares = z3.Or(*[z3.And(f.t == inf.funcs[0].t, z3.Or(*[Z3Ops.eq(kt, nm) for nm in inf.names])) for inf in infos])
                    out.append(VC(C_SRC_WF.full + ':declared' + tag, [], declares, C_SRC_WF.props))
        if on(C_DEPTHS) and isinstance(dep, SymDict):
            exp = [(outer.funcs[0].t, outer.depth_terms[0]), (inner.funcs[0].t, inner.depth_terms[0] + 1)]
            for dk, dv in dep.items_:
                goal = z3.Or(*[z3.And(dk.t == f, sym.zint(dv) == d) for f, d in exp])
                out.append(VC(C_DEPTHS.full + ':value:%s' % (dk,), [], goal, C_DEPTHS.props))
    if on(C_FRESH):
        ok = True
        if isinstance(src, SymDict):
            if sym.input_label(src):
                ok = False
            for k, v in src.items_:
                if sym.input_label(v):
                    ok = False
        out.append(VC(C_FRESH.full, [], z3.BoolVal(ok), C_FRESH.props))
    return out


def make_runner(shapes_, nnames=1, want=None, flags=FLAGS):
    I = Interp()
    from vf import world as _world
    _world.install_externals(I, {})     # eval(expression, f.__globals__) is the uninterpreted evalin
    install_concile_summary(I)
    m = I.module('sigtools._signatures')
    env = {'interp': I}
    forwards, embed, mask = m.ns['forwards'], m.ns['embed'], m.ns['mask']

    def attempt(f):
        try:
            return ('return', f())
        except PyExc as e:
            return ('raise', e)

    def run(ctx, r):
        infos = [mk_sig(I, ctx, 's%d' % i, sh) for i, sh in enumerate(shapes_)]
        ctx.add(z3.Distinct(*[i.funcs[0].t for i in infos]))
        outer, inner = infos
        env['infos'] = infos
        env['r'] = r
        r.inputs = infos
        nt = z3.Int('fwd_n')
        ctx.add(nt >= 0)
        n = SymInt(nt)
        names = [SymName(z3.Const('fname%d' % i, NameS)) for i in range(nnames)]
        env['n'], env['names'] = n, names
        fl = {k: (SymBool(z3.Bool(k)) if k in flags else (k.startswith('use_'))) for k in FLAGS}
        env['flags'] = fl
        a = attempt(lambda: I.call(forwards, [outer.sig, inner.sig, n] + names, list(fl.items())))
        fv = {k: flag_value(ctx, v) for k, v in fl.items()}
        env['flag_values'] = fv

        def composed():
            inner2 = inner.sig
            if fv['partial']:
                ps = []
                for p in inner.sig._d['_parameters'].plist:
                    if p.kind in (VP, VK):
                        ps.append(p)
                    else:
                        ps.append(I.call(I.getattr_(p, 'replace'), [], [('default', None)]))
                inner2 = I.call(I.getattr_(inner.sig, 'replace'), [], [('parameters', ps)])
            masked = I.call(mask, [inner2, n] + names, [('hide_args', fv['hide_args']), ('hide_kwargs', fv['hide_kwargs']),
                                                         ('hide_varargs', False), ('hide_varkwargs', False)])
            return I.call(embed, [outer.sig, masked], [('use_varargs', fv['use_varargs']), ('use_varkwargs', fv['use_varkwargs'])])
        b = attempt(composed)
        env['runs'] = (a, b)
        r.outcome = a[0]
        if a[0] == 'return':
            r.value = a[1]
        else:
            r.exc = a[1]
    return run, env


vcs = fwd_vcs


def _concrete_case(env, conc):
    sigs = [conc.build_sig(i) for i in env['infos']]
    fl = {k: (conc.boolean(v.t) if isinstance(v, SymBool) else bool(v)) for k, v in env['flags'].items()}
    return sigs, conc.integer(env['n']), [conc.name(x) for x in env['names']], fl


def replay(env, vc, model):
    from vf.concrete import Concretizer, sig_str, real_sigtools
    from vf import rt
    real_sigtools()
    from sigtools import _signatures
    conc = Concretizer(model)
    sigs, n, names, fl = _concrete_case(env, conc)
    short = vc.name.split('/', 1)[1]
    key = ':'.join(short.split(':')[:2])
    before = [rt.snapshot_sig(s) for s in sigs]
    oc = rt.run_real(_signatures.forwards, sigs[0], sigs[1], n, *names, **fl)
    bad = rt.check_forwards(sigs[0], sigs[1], n, names, fl, oc)
    if [rt.snapshot_sig(s) for s in sigs] != before:
        bad.append(('frame:inputs_unchanged', 'input snapshot differs'))
    hit = [b for b in bad if b[0].startswith(key)]
    return dict(op='forwards', inputs=[sig_str(s) for s in sigs], specs=[conc.param_specs(i) for i in env['infos']], n=n, names=names,
                flags=fl, native_outcome=sig_str(oc[1]) if oc[0] == 'return' else repr(oc[1]),
                status='reproduced' if hit else ('other-violation' if bad else 'not-reproduced'), violated=[list(b) for b in (hit or bad)[:8]])


def crosscheck(env, r):
    from vf.concrete import Concretizer, real_sigtools
    from vf import rt
    real_sigtools()
    from sigtools import _signatures
    s = r.ctx.solver
    if s.check() != z3.sat:
        return 'path condition not satisfiable at path end'
    conc = Concretizer(s.model())
    sigs, n, names, fl = _concrete_case(env, conc)
    fmap = {}
    for i, sg in zip(env['infos'], sigs):
        for f in sg.sources['+depths']:
            fmap[id(f)] = conc.refkey(i.funcs[0])
    oc = rt.run_real(_signatures.forwards, sigs[0], sigs[1], n, *names, **fl)
    desc = 'forwards(%s, %d, %r, %r)' % ([str(x) for x in sigs], n, names, fl)
    if r.outcome == 'raise':
        if oc[0] != 'raise':
            return 'symbolic raise %s, native returned %s on %s' % (r.exc.typname, oc[1], desc)
        if type(oc[1]).__name__ != r.exc.typname:
            return 'symbolic raise %s, native raise %r on %s' % (r.exc.typname, oc[1], desc)
        return None
    if oc[0] == 'raise':
        return 'symbolic return, native raise %r on %s' % (oc[1], desc)
    a = sym_sig_data(conc, r.value)
    b = real_sig_data(oc[1], lambda f: fmap.get(id(f), '?'))
    if a != b:
        return 'results differ on %s: symbolic %r native %r' % (desc, a, b)
    return None
