"""Trusted native models used underneath the interpreted sigtools code.

Each model states the CPython 3.12 behaviour it transcribes.  They are differentially tested against CPython
by the per-path replay (vf/concrete.py): every explored path's concrete witness is run natively and the
outcomes compared.
"""
import ast as real_ast
import builtins as real_builtins
import collections
import itertools
import sys
import __future__ as real_future

import z3

from . import sym
from .sym import (PyExc, EngineLimit, EngineError, SymBool, SymInt, SymName, SymVal, SymRef, Opaque, MV, EMPTY,
                  SymDict, SymSet, py_eq, py_is, to_mv, TList, NONEVAL, CTX)


def _interp_mod():
    from . import interp
    return interp


def _real_modules():
    import inspect as _i, functools as _f, itertools as _it, collections as _c, contextlib as _cl, warnings as _w, types as _t, typing as _ty, abc as _a, weakref as _wr
    return {'inspect': _i, 'functools': _f, 'itertools': _it, 'collections': _c, 'contextlib': _cl, 'warnings': _w, 'types': _t, 'typing': _ty, 'abc': _a,
            'weakref': _wr, 'sys': sys}


_REAL_MODULES = _real_modules()


class NMod:
    """a native module namespace"""

    def __init__(self, name, **kw):
        self._name = name
        self.__dict__.update(kw)

    def _vf_getattr(self, interp, name):
        try:
            return self.__dict__[name]
        except KeyError:
            # the REAL module may well have this attribute: what is missing is our model of it - never a Python error
            real = _REAL_MODULES.get(self._name)
            if real is not None and hasattr(real, name):
                raise EngineLimit('%s.%s is not modelled' % (self._name, name))
            raise PyExc(AttributeError, ('module %r has no attribute %r' % (self._name, name),))

    def __repr__(self):
        return '<native module %s>' % self._name


class _Delegating(NMod):
    """native module that falls back to the real module for anything not overridden (concrete use only)"""

    def __init__(self, name, real, **kw):
        NMod.__init__(self, name, **kw)
        self._real = real

    def _vf_getattr(self, interp, name):
        if name in self.__dict__:
            return self.__dict__[name]
        try:
            return getattr(self._real, name)
        except AttributeError:
            raise PyExc(AttributeError, ('module %r has no attribute %r' % (self._name, name),))


# --------------------------------------------------------------------------- inspect.Parameter
PO, POK, VP, KWO, VK = range(5)
KIND_NAMES = ['POSITIONAL_ONLY', 'POSITIONAL_OR_KEYWORD', 'VAR_POSITIONAL', 'KEYWORD_ONLY', 'VAR_KEYWORD']
_VOID = object()


def _mv_view(mv):
    """what ``param.default`` / ``param.annotation`` evaluates to"""
    if z3.is_false(mv.has):
        return EMPTY
    return mv


class NParameter:
    """inspect.Parameter (CPython 3.12 Lib/inspect.py: Parameter.__init__, replace, __eq__, __hash__).
    Not modelled: name validation (identifier / keyword checks) - ASSUMPTION NAMES: names are identifiers."""
    _vf_native = True
    __slots__ = ()
    empty = EMPTY
    POSITIONAL_ONLY, POSITIONAL_OR_KEYWORD, VAR_POSITIONAL, KEYWORD_ONLY, VAR_KEYWORD = range(5)

    def __init__(self, name, kind, *, default=EMPTY, annotation=EMPTY):
        if not isinstance(kind, int) or kind not in (0, 1, 2, 3, 4):
            raise PyExc(ValueError, ('not a valid Parameter.kind',))
        d = to_mv(default)
        if kind in (VP, VK):
            if CTX().decide(d.has):
                raise PyExc(ValueError, ('star parameters cannot have default values',))
        if name is EMPTY:
            raise PyExc(ValueError, ('name is a required attribute for Parameter',))
        if not isinstance(name, (str, SymName)):
            raise PyExc(TypeError, ('name must be a str',))
        dd = self._d
        dd['_kind'] = kind
        dd['_default'] = d
        dd['_annotation'] = to_mv(annotation)
        dd['_name'] = name

    name = property(lambda self: self._d['_name'])
    kind = property(lambda self: self._d['_kind'])
    default = property(lambda self: _mv_view(self._d['_default']))
    annotation = property(lambda self: _mv_view(self._d['_annotation']))

    def replace(self, *, name=_VOID, kind=_VOID, annotation=_VOID, default=_VOID):
        d = self._d
        if name is _VOID:
            name = d['_name']
        if kind is _VOID:
            kind = d['_kind']
        if annotation is _VOID:
            annotation = d['_annotation']
        if default is _VOID:
            default = d['_default']
        r = self._cls.interp.instantiate(self._cls, [name, kind], [('default', default), ('annotation', annotation)])
        for k, v in d.items():          # ghost fields travel with replace()
            if k.startswith('_vf_') and k not in r._d:
                r._d[k] = v
        return r

    def __eq__(self, other):
        if self is other:
            return True
        if not _is_param(other):
            return NotImplemented
        a, b = self._d, other._d
        return (py_eq(a['_name'], b['_name']) and a['_kind'] == b['_kind'] and
                py_eq(a['_default'], b['_default']) and py_eq(a['_annotation'], b['_annotation']))

    def __hash__(self):
        return ParamHash(self)

    def __str__(self):
        return Opaque('param-str')

    def __repr__(self):
        return Opaque('param-repr')


class ParamHash:
    """hash((name, kind, annotation, default)) kept symbolic: equal iff the basis is equal (ASSUMPTION HASH)"""

    def __init__(self, p):
        self.p = p


def _is_param(o):
    I = _interp_mod()
    return isinstance(o, I.Inst) and NParameter in o._cls.mro


def _is_sig(o):
    I = _interp_mod()
    return isinstance(o, I.Inst) and NSignature in o._cls.mro


class ParamsView:
    """sig.parameters: ordered read-only mapping name -> parameter"""
    _vf_container = True

    def __init__(self, plist):
        self.plist = list(plist)

    def values(self):
        return list(self.plist)

    def keys(self):
        return [p.name for p in self.plist]

    def items(self):
        return [(p.name, p) for p in self.plist]

    def __iter__(self):
        return iter(self.keys())

    def __len__(self):
        return len(self.plist)

    def __bool__(self):
        return bool(self.plist)

    def _find(self, name):
        for p in self.plist:
            if py_eq(p.name, name):
                return p
        return None

    def __contains__(self, name):
        return self._find(name) is not None

    def __getitem__(self, name):
        p = self._find(name)
        if p is None:
            raise PyExc(KeyError, (name,))
        return p

    def get(self, name, d=None):
        p = self._find(name)
        return d if p is None else p


class BoundArgs:
    def __init__(self, arguments):
        self.arguments = arguments


class NSignature:
    """inspect.Signature (CPython 3.12 Lib/inspect.py: Signature.__init__ validation, replace, __eq__,
    _hash_basis, __hash__, parameters, return_annotation). bind/bind_partial: see bind_model."""
    _vf_native = True
    __slots__ = ()
    empty = EMPTY

    def __init__(self, parameters=None, *, return_annotation=EMPTY, __validate_parameters__=True):
        plist = []
        if parameters is not None:
            top = PO
            seen_default = False
            for p in self._cls.interp.iter_(parameters):
                kind = p.kind
                name = p.name
                if kind < top:
                    raise PyExc(ValueError, ('wrong parameter order',))
                elif kind > top:
                    top = kind
                if kind in (PO, POK):
                    has = p._d['_default'].has
                    if isinstance(seen_default, bool) and not seen_default:
                        seen_default = has
                    else:
                        if CTX().decide(z3.And(seen_default, z3.Not(has))):
                            raise PyExc(ValueError, ('non-default argument follows default argument',))
                        seen_default = z3.Or(seen_default, has)
                for q in plist:
                    if py_eq(q.name, name):
                        raise PyExc(ValueError, ('duplicate parameter name',))
                plist.append(p)
        self._d['_parameters'] = ParamsView(plist)
        self._d['_return_annotation'] = to_mv(return_annotation) if not isinstance(return_annotation, (str, Opaque)) else return_annotation

    parameters = property(lambda self: self._d['_parameters'])

    @property
    def return_annotation(self):
        r = self._d['_return_annotation']
        return _mv_view(r) if isinstance(r, MV) else r

    def replace(self, *, parameters=_VOID, return_annotation=_VOID):
        if parameters is _VOID:
            parameters = self._d['_parameters'].values()
        if return_annotation is _VOID:
            return_annotation = self._d['_return_annotation']
        return self._cls.interp.instantiate(self._cls, [parameters], [('return_annotation', return_annotation)])

    def _hash_basis_eq(self, other):
        a = self._d['_parameters'].plist
        b = other._d['_parameters'].plist
        pa = [p for p in a if p.kind != KWO]
        pb = [p for p in b if p.kind != KWO]
        if len(pa) != len(pb):
            return False
        for x, y in zip(pa, pb):
            if x is y:
                continue
            if not py_eq(x, y):
                return False
        ka = [p for p in a if p.kind == KWO]
        kb = [p for p in b if p.kind == KWO]
        if len(ka) != len(kb):
            return False
        for x in ka:
            for y in kb:
                if py_eq(x.name, y.name):
                    if x is not y and not py_eq(x, y):
                        return False
                    break
            else:
                return False
        return py_eq(self._d['_return_annotation'], other._d['_return_annotation'])

    def __eq__(self, other):
        if self is other:
            return True
        if not _is_sig(other):
            return NotImplemented
        return NSignature._hash_basis_eq(self, other)

    def __hash__(self):
        return SigHash(self)

    def __str__(self):
        return Opaque('sig-str')

    def bind_partial(self, *args, **kwargs):
        return bind_model(self, list(args), SymDict(kwargs.items()), partial=True)

    def bind(self, *args, **kwargs):
        return bind_model(self, list(args), SymDict(kwargs.items()), partial=False)


class SigHash:
    def __init__(self, s):
        self.s = s


def bind_model(sig, args, kwargs, partial):
    """Signature._bind restricted to what sigtools uses (forward_signatures: bind_partial(*args, **kwargs) with
    concrete-length args and concrete keyword names).  Returns BoundArguments-like object; raises TypeError."""
    plist = sig._d['_parameters'].plist
    arguments = SymDict()
    it = iter(args)
    params = list(plist)
    i = 0
    rest = []
    for a in it:
        if i >= len(params):
            raise PyExc(TypeError, ('too many positional arguments',))
        p = params[i]
        if p.kind in (KWO, VK):
            raise PyExc(TypeError, ('too many positional arguments',))
        if p.kind == VP:
            arguments[p.name] = tuple([a] + list(it))
            i += 1
            break
        if any(py_eq(p.name, k) for k in kwargs.keys()) and p.kind != PO:
            raise PyExc(TypeError, ('multiple values for argument',))
        arguments[p.name] = a
        i += 1
    kw = SymDict(kwargs)
    kwargs_param = None
    for p in params[i:]:
        if p.kind == VK:
            kwargs_param = p
            continue
        if p.kind == VP:
            continue
        found = None
        for k in kw.keys():
            if py_eq(k, p.name):
                found = k
                break
        if found is None:
            if not partial and not CTX().decide(p._d['_default'].has):
                raise PyExc(TypeError, ('missing a required argument',))
            continue
        if p.kind == PO:
            # 3.12: positional-only passed by keyword goes to **kwargs if there is one, else error
            continue
        arguments[p.name] = kw.pop(found)
    if kw:
        if kwargs_param is not None:
            arguments[kwargs_param.name] = kw
        else:
            raise PyExc(TypeError, ('got an unexpected keyword argument',))
    return BoundArgs(arguments)


# --------------------------------------------------------------------------- ast.NodeVisitor, MutableMapping
class NNodeVisitor:
    """ast.NodeVisitor.visit / generic_visit (CPython 3.12 Lib/ast.py)"""
    _vf_native = True

    def visit(self, node):
        if hasattr(node, '_vf_node_class'):
            cname = node._vf_node_class()
        else:
            cname = node.__class__.__name__
        I = _interp_mod()
        try:
            visitor = self._cls.interp.getattr_inst(self, 'visit_' + cname)
        except PyExc as e:
            if e.typ is not AttributeError:
                raise
            visitor = self._cls.interp.getattr_inst(self, 'generic_visit')
        return self._cls.interp.call(visitor, [node], [])

    def generic_visit(self, node):
        if hasattr(node, '_vf_children'):
            for ch in node._vf_children():
                self._cls.interp.call(self._cls.interp.getattr_inst(self, 'visit'), [ch], [])
            return
        for field, value in real_ast.iter_fields(node):
            if isinstance(value, list):
                for item in value:
                    if isinstance(item, real_ast.AST):
                        self._cls.interp.call(self._cls.interp.getattr_inst(self, 'visit'), [item], [])
            elif isinstance(value, real_ast.AST):
                self._cls.interp.call(self._cls.interp.getattr_inst(self, 'visit'), [value], [])


class NMutableMapping:
    """collections.abc.MutableMapping mixin methods used by sigtools' Namespace: get, __contains__, pop, setdefault, update"""
    _vf_native = True

    def get(self, key, default=None):
        try:
            return self._cls.interp.call(self._special('__getitem__'), [key], [])
        except PyExc as e:
            if e.typ is KeyError:
                return default
            raise

    def __contains__(self, key):
        try:
            self._cls.interp.call(self._special('__getitem__'), [key], [])
        except PyExc as e:
            if e.typ is KeyError:
                return False
            raise
        return True

    def keys(self):
        return list(self)

    def items(self):
        return [(k, self[k]) for k in self]

    def values(self):
        return [self[k] for k in self]


# --------------------------------------------------------------------------- object methods
def _obj_init(self, *a, **k):
    if a or k:
        raise PyExc(TypeError, ('object.__init__() takes exactly one argument',))


def _obj_new(cls, *a, **k):
    I = _interp_mod()
    return I.Inst(cls)


def _obj_eq(self, other):
    return True if self is other else NotImplemented


def _obj_setattr(self, name, value):
    sym.note_write(self)
    self._d[name] = value


def _obj_delattr(self, name):
    if name in self._d:
        sym.note_write(self)
        del self._d[name]
    else:
        raise PyExc(AttributeError, (name,))


OBJECT_METHODS = {'__init__': _obj_init, '__new__': _obj_new, '__eq__': _obj_eq, '__setattr__': _obj_setattr,
                  '__delattr__': _obj_delattr,
                  '__repr__': lambda self: Opaque('repr'), '__str__': lambda self: Opaque('str'),
                  '__hash__': lambda self: id(self), '__ne__': lambda self, o: NotImplemented}


# --------------------------------------------------------------------------- type tokens
class FunctionTypeModel:
    """type(f) for an interpreted function: has __get__ (binds)"""
    __name__ = 'function'

    def _vf_getattr(self, interp, name):
        I = _interp_mod()
        if name == '__get__':
            return lambda func, instance, owner=None: func if instance is None else I.BoundMethod(func, instance)
        if name == '__name__':
            return 'function'
        raise PyExc(AttributeError, (name,))


class MethodTypeModel:
    __name__ = 'method'

    def _vf_getattr(self, interp, name):
        if name == '__get__':
            return lambda meth, instance, owner=None: meth
        raise PyExc(AttributeError, (name,))


class PlainTypeModel:
    """type(x) of an object whose type defines nothing sigtools looks for (partial objects, ints, ...)"""

    def __init__(self, name):
        self.__name__ = name

    def _vf_getattr(self, interp, name):
        if name == '__name__':
            return self.__name__
        raise PyExc(AttributeError, (name,))


FUNCTION_TYPE = FunctionTypeModel()
METHOD_TYPE = MethodTypeModel()


# --------------------------------------------------------------------------- builtins
class _NotConcrete(Exception):
    pass


def py_repr(interp, x):
    """repr(x): a concrete str when every part is concrete (interpreted __repr__ methods are called), else Opaque"""
    I = _interp_mod()
    if isinstance(x, (str, int, float, bool, type(None), bytes)):
        return repr(x)
    if isinstance(x, I.Inst):
        m = x._special('__repr__')
        if m is not None:
            return interp.call(m, [], [])
        return '<%s object at %#x>' % (x._cls.name, id(x))      # object.__repr__: distinct per object
    if isinstance(x, (list, tuple)) and not hasattr(x, '_fields'):
        ps = [py_repr(interp, e) for e in x]
        if not all(isinstance(p, str) for p in ps):
            return Opaque()
        if isinstance(x, tuple):
            return '(' + ', '.join(ps) + (',' if len(ps) == 1 else '') + ')'
        return '[' + ', '.join(ps) + ']'
    if isinstance(x, SymDict):
        ps = [(py_repr(interp, k), py_repr(interp, v)) for k, v in x.items_]
        if not all(isinstance(a, str) and isinstance(b, str) for a, b in ps):
            return Opaque()
        return '{' + ', '.join('%s: %s' % p for p in ps) + '}'
    return Opaque()


def py_str(interp, x):
    I = _interp_mod()
    if isinstance(x, str):
        return x
    if isinstance(x, (int, float, bool, type(None))):
        return str(x)
    if isinstance(x, I.Inst):
        m = x._special('__str__')
        if m is not None:
            return interp.call(m, [], [])
        return py_repr(interp, x)
    if isinstance(x, (list, tuple, SymDict)):
        return py_repr(interp, x)
    return Opaque()


def str_format(interp, template, args, kwargs):
    """str.format: concrete when the template and every converted argument is concrete, else an opaque string
    (the interpreted __repr__/__str__ of every argument still run, as in CPython)"""
    class Px:
        def __init__(self, v):
            self.v = v

        def __repr__(self):
            r = py_repr(interp, self.v)
            if not isinstance(r, str):
                raise _NotConcrete()
            return r

        def __str__(self):
            r = py_str(interp, self.v)
            if not isinstance(r, str):
                raise _NotConcrete()
            return r

        def __format__(self, spec):
            if spec:
                raise _NotConcrete()
            return self.__str__()

        def __getattr__(self, name):
            return Px(interp.getattr_(self.v, name))
    try:
        return template.format(*[Px(a) for a in args], **{k: Px(v) for k, v in kwargs.items()})
    except _NotConcrete:
        return Opaque()
    except (IndexError, KeyError) as e:
        raise PyExc(type(e), e.args)


def str_join(interp, sep, it):
    parts = [x for x in interp.iter_(it)]
    if all(isinstance(p, str) for p in parts):
        return sep.join(parts)
    if all(isinstance(p, (str, Opaque, SymName)) for p in parts):
        return Opaque()
    raise PyExc(TypeError, ('sequence item: expected str instance',))


def make_builtins(interp):
    I = _interp_mod()

    def b_isinstance(o, c):
        if isinstance(c, tuple):
            return any(b_isinstance(o, x) for x in c)
        if hasattr(o, '_vf_isinstance'):
            return o._vf_isinstance(interp, c)
        if isinstance(c, I.IClass):
            return isinstance(o, I.Inst) and c in o._cls.mro
        if c is str:
            return isinstance(o, (str, SymName, Opaque))
        if hasattr(c, '_vf_isinstance_of'):
            return c._vf_isinstance_of(o)
        if c is I.BoundMethod:
            return isinstance(o, I.BoundMethod)
        if c is I.Closure:
            return isinstance(o, I.Closure)
        if c is type:
            return isinstance(o, (I.IClass, type))
        if c is list:
            return isinstance(o, list)
        if c is tuple:
            return isinstance(o, tuple)
        if c is dict:
            return isinstance(o, SymDict)
        if c is set:
            return isinstance(o, SymSet)
        if c is int:
            return isinstance(o, (int, SymInt)) and not isinstance(o, bool)
        if isinstance(c, type):
            if getattr(c, '_vf_native', False):
                return isinstance(o, I.Inst) and c in o._cls.mro
            if isinstance(o, (I.Inst, SymName, SymVal, SymRef, SymInt, SymBool, MV, Opaque, SymDict, SymSet)):
                return False
            return isinstance(o, c)
        raise EngineLimit('isinstance against %r' % (c,))

    def b_issubclass(a, b):
        if isinstance(a, I.IClass):
            return b in a.mro
        if isinstance(a, type) and isinstance(b, type):
            return issubclass(a, b)
        return False

    def b_getattr(o, name, *d):
        try:
            return interp.getattr_(o, name)
        except PyExc as e:
            if d and (e.typ is AttributeError or (isinstance(e.typ, type) and issubclass(e.typ, AttributeError))):
                return d[0]
            raise

    def b_hasattr(o, name):
        try:
            interp.getattr_(o, name)
            return True
        except PyExc as e:
            if e.typ is AttributeError or (isinstance(e.typ, type) and issubclass(e.typ, AttributeError)):
                return False
            raise

    def b_next(it, *d):
        try:
            return next(it)
        except StopIteration:
            if d:
                return d[0]
            raise PyExc(StopIteration, ())

    def b_iter(x):
        return interp.iter_(x)

    def b_len(x):
        if hasattr(x, '_vf_len'):
            return x._vf_len(interp)
        if isinstance(x, (list, tuple, str, SymDict, SymSet, dict, ParamsView)):
            return len(x)
        if isinstance(x, I.Inst):
            try:
                return len(x)
            except TypeError:
                raise PyExc(TypeError, ('object has no len()',))
        if hasattr(x, '_vf_len'):
            return x._vf_len(interp)
        raise PyExc(TypeError, ('object of type %r has no len()' % type(x).__name__,))

    def b_dict(args, kwpairs):
        d = SymDict()
        if args:
            x = args[0]
            if isinstance(x, SymDict):
                d.items_ = list(x.items_)
            elif isinstance(x, dict):
                d.items_ = list(x.items())
            elif hasattr(x, 'items') and not isinstance(x, (list, tuple)) and not hasattr(x, '__next__'):
                d.items_ = list(x.items())
            else:
                for kv in interp.iter_(x):
                    k, v = kv
                    d[k] = v
        for k, v in kwpairs:
            d[k] = v
        return d
    b_dict._vf_pairs = True
    b_dict.__name__ = 'dict'

    def b_type(o, *rest):
        if rest:
            raise EngineLimit('three-argument type()')
        if isinstance(o, I.Inst):
            return o._cls
        if isinstance(o, I.Closure):
            return FUNCTION_TYPE
        if isinstance(o, I.BoundMethod):
            return METHOD_TYPE
        if isinstance(o, I.PartialObj):
            return PlainTypeModel('partial')
        if hasattr(o, '_vf_type'):
            return o._vf_type(interp)
        if isinstance(o, (SymName, SymVal, SymRef, SymInt, SymBool, MV)):
            raise EngineLimit('type() of symbolic scalar')
        return type(o)

    def b_super(*a):
        if len(a) == 2:
            return I.SuperProxy(a[0], a[1])
        raise EngineLimit('super() arity')

    def b_str(x=''):
        return py_str(interp, x)

    def b_repr(x):
        return py_repr(interp, x)

    def b_list(x=()):
        return TList(interp.iter_(x))

    def b_tuple(x=()):
        return tuple(interp.iter_(x))

    def b_set(x=()):
        return SymSet(interp.iter_(x))

    def b_enumerate(x, start=0):
        return enumerate(interp.iter_(x), start)

    def b_zip(*xs):
        return zip(*[interp.iter_(x) for x in xs])

    def b_all(x):
        for v in interp.iter_(x):
            if not interp.truth(v):
                return False
        return True

    def b_any(x):
        for v in interp.iter_(x):
            if interp.truth(v):
                return True
        return False

    def b_callable(o):
        if isinstance(o, (I.Closure, I.BoundMethod, I.IClass, I.PartialObj)):
            return True
        if isinstance(o, I.Inst):
            return o._special('__call__') is not None
        if hasattr(o, '_vf_callable'):
            return o._vf_callable(interp)
        return callable(o)

    def b_reversed(x):
        return reversed(list(interp.iter_(x)))

    def b_bool(x=False):
        return interp.truth(x)

    def b_int(x=0):
        if isinstance(x, (SymInt, SymBool)):
            return SymInt(sym.zint(x))
        return int(x)

    def b_eval(*a):
        if interp.external_call is None:
            raise EngineLimit('eval')
        return interp.external_call(interp, 'eval', list(a), [])

    def b_object():
        return I.Inst(OBJECT_CLASS(interp))

    def b_setattr(o, n, v):
        interp.setattr_(o, n, v)

    def b_delattr(o, n):
        interp.delattr_(o, n)

    def b_sorted(x, **k):
        l = list(interp.iter_(x))
        if k:
            raise EngineLimit('sorted() with key/reverse')
        if all(isinstance(e, (str, int)) for e in l):
            return TList(sorted(l))
        firsts = [e[0] for e in l if isinstance(e, tuple) and e and isinstance(e[0], (str, int))]
        if len(firsts) == len(l) and len(set(firsts)) == len(firsts):
            return TList(sorted(l, key=lambda e: e[0]))      # decided by the distinct concrete first components
        raise EngineLimit('sorted() on symbolic values')

    def b_range(*a):
        if any(isinstance(x, SymInt) for x in a):
            raise EngineLimit('range() over symbolic int')
        return range(*a)

    def b_id(o):
        return id(o)

    def _minmax(a, is_max):
        if len(a) == 1:
            a = list(interp.iter_(a[0]))
        if not a:
            raise PyExc(ValueError, ('empty sequence',))
        if all(isinstance(x, (int, bool)) for x in a):
            return (max if is_max else min)(a)
        if all(isinstance(x, (int, bool, SymInt)) for x in a):
            from .sym import zint
            r = zint(a[0])
            for x in a[1:]:
                t = zint(x)
                r = z3.If((t > r) if is_max else (t < r), t, r)
            return SymInt(z3.simplify(r))
        raise EngineLimit('min/max of symbolic values')

    def b_min(*a):
        return _minmax(a, False)

    def b_max(*a):
        return _minmax(a, True)

    def b_print(*a, **k):
        return None

    def b_vars(*a):
        if len(a) != 1:
            raise EngineLimit('vars() without an argument')
        o = a[0]
        if hasattr(o, '_vf_vars'):
            return o._vf_vars(interp)
        if isinstance(o, I.Inst):
            return o._d
        raise EngineLimit('vars(%s)' % type(o).__name__)

    b = dict(
        isinstance=b_isinstance, issubclass=b_issubclass, getattr=b_getattr, hasattr=b_hasattr, setattr=b_setattr,
        delattr=b_delattr, next=b_next, iter=b_iter, len=b_len, dict=b_dict, type=b_type, super=b_super, str=b_str,
        repr=b_repr, list=b_list, tuple=b_tuple, set=b_set, enumerate=b_enumerate, zip=b_zip, all=b_all, any=b_any,
        callable=b_callable, reversed=b_reversed, bool=b_bool, int=b_int, eval=b_eval, sorted=b_sorted,
        range=b_range, id=b_id, print=b_print, vars=b_vars, min=b_min, max=b_max, object=object, property=I.Property, classmethod=I.ClassMethod,
        staticmethod=I.StaticMethod, NotImplemented=NotImplemented, frozenset=b_set,
        True_=True,
    )
    for name in ('ValueError', 'TypeError', 'KeyError', 'AttributeError', 'AssertionError', 'StopIteration',
                 'NotImplementedError', 'ImportError', 'OSError', 'IOError', 'IndexError', 'LookupError', 'Exception',
                 'BaseException', 'RuntimeError', 'NameError', 'SyntaxError', 'RecursionError', 'DeprecationWarning',
                 'UnboundLocalError', 'ArithmeticError', 'ModuleNotFoundError', 'Warning', 'GeneratorExit',
                 'KeyboardInterrupt', 'SystemExit'):
        b[name] = getattr(real_builtins, name)
    return b


_OBJ_CLS = {}


def OBJECT_CLASS(interp):
    I = _interp_mod()
    c = _OBJ_CLS.get(id(interp))
    if c is None:
        c = I.IClass('object', [], {}, None, interp)
        _OBJ_CLS.clear()
        _OBJ_CLS[id(interp)] = c
    return c


# --------------------------------------------------------------------------- native modules
_PT = {}


def PARTIAL_TYPE(interp, cls):
    """one partial type token per interpreter (identity matters: ``wrapped_func == functools.partial``)"""
    t = getattr(interp, '_partial_type', None)
    if t is None:
        t = cls()
        interp._partial_type = t
    return t


def native_module(interp, name):
    I = _interp_mod()
    ctx = CTX

    def warn(message, category=None, stacklevel=1, **k):
        c = ctx()
        if c is not None:
            c.log('warn', getattr(category, '__name__', str(category)))

    def zip_longest(*xs, fillvalue=None):
        return itertools.zip_longest(*[interp.iter_(x) for x in xs], fillvalue=fillvalue)

    def chain(*xs):
        for x in xs:
            yield from interp.iter_(x)

    def chain_from_iterable(xs):
        for x in interp.iter_(xs):
            yield from interp.iter_(x)
    chain.from_iterable = chain_from_iterable

    def combinations(x, r):
        return itertools.combinations(list(interp.iter_(x)), r)

    def product(*xs, **k):
        return itertools.product(*[list(interp.iter_(x)) for x in xs], **k)

    def update_wrapper(wrapper, wrapped, assigned=('__module__', '__name__', '__qualname__', '__doc__', '__annotations__', '__type_params__'),
                       updated=('__dict__',)):
        """functools.update_wrapper (CPython 3.12 Lib/functools.py)"""
        for attr in assigned:
            try:
                value = interp.getattr_(wrapped, attr)
            except PyExc as e:
                if e.typ is not AttributeError:
                    raise
            else:
                interp.setattr_(wrapper, attr, value)
        for attr in updated:
            if attr == '__dict__':
                if hasattr(wrapped, '_vf_dict_items'):
                    for k, v in wrapped._vf_dict_items(interp):
                        interp.setattr_(wrapper, k, v)
                elif isinstance(wrapped, I.Inst):
                    for k, v in list(wrapped._d.items()):
                        if not k.startswith('_vf'):
                            interp.setattr_(wrapper, k, v)
                elif isinstance(wrapped, (I.Closure, I.PartialObj)):
                    for k, v in list(wrapped.attrs.items()):
                        interp.setattr_(wrapper, k, v)
            else:
                raise EngineLimit('update_wrapper updated=%r' % (attr,))
        interp.setattr_(wrapper, '__wrapped__', wrapped)
        return wrapper

    def wraps(wrapped, **k):
        return lambda w: update_wrapper(w, wrapped, **k)

    def partial_new(args, kwpairs):
        if not args:
            raise PyExc(TypeError, ("type 'partial' takes at least one argument",))
        f = args[0]
        if isinstance(f, I.PartialObj) and not f.attrs:
            # functools.partial flattens nested partials
            return I.PartialObj(f.func, list(f.args) + list(args[1:]), I._merge_kw(f.keywords.items_, kwpairs))
        return I.PartialObj(f, args[1:], kwpairs)
    partial_new._vf_pairs = True

    class PartialType:
        """functools.partial as a class token: callable, usable in isinstance and ``==``"""
        __name__ = 'partial'

        def _vf_call(self, interp_, args, kwpairs):
            return partial_new(args, kwpairs)

        def _vf_isinstance_of(self, o):
            return isinstance(o, I.PartialObj) or getattr(o, '_vf_is_partial', False)

    class GenCM:
        """contextlib._GeneratorContextManager (CPython 3.12 Lib/contextlib.py), over an interpreted generator"""

        def __init__(self, gen):
            self.gen = gen

        def _vf_getattr(self, interp_, nm):
            if nm == '__enter__':
                return self.enter
            if nm == '__exit__':
                return self.exit
            raise PyExc(AttributeError, (nm,))

        def enter(self):
            try:
                return next(self.gen)
            except StopIteration:
                raise PyExc(RuntimeError, ("generator didn't yield",))

        def exit(self, typ, value, tb):
            if typ is None:
                try:
                    next(self.gen)
                except StopIteration:
                    return False
                raise PyExc(RuntimeError, ("generator didn't stop",))
            ex = interp.pending_with_exc
            try:
                self.gen.throw(ex)
            except StopIteration:
                return True
            except PyExc as e2:
                if e2 is ex:
                    return False
                raise
            raise PyExc(RuntimeError, ("generator didn't stop after throw()",))

    class CMFactory:
        """what @contextmanager returns: a FUNCTION (binds as a method when found on a class)"""
        _vf_function_like = True

        def __init__(self, f, bound=None):
            self.f, self.bound = f, bound

        def _vf_call(self, interp_, args, kwpairs):
            a = ([self.bound] if self.bound is not None else []) + list(args)
            return GenCM(interp.call(self.f, a, kwpairs))

        def _vf_bind(self, inst):
            return CMFactory(self.f, inst)

    def contextmanager(f):
        return CMFactory(f)

    if name in ('sphinx', 'sphinx.ext', 'sphinx.ext.autodoc'):
        class FunctionDocumenter:
            _vf_native = True
        ad = NMod('sphinx.ext.autodoc', FunctionDocumenter=FunctionDocumenter, bool_option=lambda x: True)
        return ad if name.endswith('autodoc') else NMod(name, autodoc=ad, ext=NMod('sphinx.ext', autodoc=ad))
    if name == 'contextlib':
        return NMod('contextlib', contextmanager=contextmanager)
    if name == 'itertools':
        return NMod('itertools', zip_longest=zip_longest, chain=chain, combinations=combinations, product=product)
    if name == 'collections':
        return NMod('collections', namedtuple=collections.namedtuple, OrderedDict=SymDict,
                    MutableMapping=NMutableMapping)
    if name == 'collections.abc':
        return NMod('collections.abc', MutableMapping=NMutableMapping)
    if name == 'functools':
        return NMod('functools', partial=PARTIAL_TYPE(interp, PartialType), update_wrapper=update_wrapper, wraps=wraps)
    if name == 'warnings':
        return NMod('warnings', warn=warn)
    if name == 'abc':
        return NMod('abc', ABCMeta=type, abstractmethod=lambda f: f)
    if name == 'sys':
        return NMod('sys', version_info=sys.version_info)
    if name == 'types':
        return NMod('types', MethodType=I.BoundMethod, FunctionType=I.Closure)
    if name == 'typing':
        return NMod('typing', Any=object)
    if name == 'attr':
        return NMod('attr', field=attr_field, ib=attr_field, NOTHING=ATTR_NOTHING)
    if name == '__future__':
        return real_future
    def unwrap(func, *, stop=None):
        """inspect.unwrap: follows __wrapped__ until ``stop`` says so; ValueError on a cycle"""
        f = func
        seen = [f]
        while True:
            if stop is not None and interp.truth(interp.call(stop, [f], [])):
                return f
            try:
                nxt = interp.getattr_(f, '__wrapped__')
            except PyExc as e:
                if e.typ is AttributeError:
                    return f
                raise
            if any(nxt is x for x in seen) or len(seen) > 8:
                raise PyExc(ValueError, ('wrapper loop when unwrapping',))
            seen.append(nxt)
            f = nxt

    if name == 'inspect':
        return NMod('inspect', unwrap=unwrap, Parameter=NParameter, Signature=NSignature,
                    signature=_external(interp, 'inspect.signature'),
                    getsource=_external(interp, 'inspect.getsource'),
                    cleandoc=_external(interp, 'inspect.cleandoc'))
    if name == 'ast':
        return _Delegating('ast', real_ast, NodeVisitor=NNodeVisitor, parse=_external(interp, 'ast.parse'))
    if name == 'weakref':
        return NMod('weakref', WeakKeyDictionary=SymDict)
    if name == 're':
        import re
        return re
    return None


def _external(interp, name):
    def f(*args, **kw):
        if interp.external_call is None:
            raise EngineLimit('external call %s without a model' % name)
        interp.externals_used.add(name)
        return interp.external_call(interp, name, list(args), list(kw.items()))
    f.__name__ = name
    return f


# --------------------------------------------------------------------------- decorators and attrs
def kwonly_from_decorator(src, clo):
    """keyword-only rewrite performed by sigtools.modifiers decorators on module-level definitions
    (ASSUMPTION DECORATORS: the modifiers behave as C12 states for sigtools' own functions)"""
    try:
        node = real_ast.parse(src, mode='eval').body
    except SyntaxError:
        return None
    if isinstance(node, real_ast.Call):
        fn = real_ast.unparse(node.func)
        if fn in ('kwoargs', 'modifiers.kwoargs'):
            return {a.value for a in node.args if isinstance(a, real_ast.Constant)}
        if fn == '_PokTranslator':
            for k in node.keywords:
                if k.arg == 'kwoargs' and isinstance(k.value, real_ast.Tuple):
                    return {e.value for e in k.value.elts if isinstance(e, real_ast.Constant)}
        return None
    if src == '_kwowr':
        return {'obj'}
    if src in ('modifiers.autokwoargs', 'autokwoargs'):
        a = clo.node.args
        pos = [x.arg for x in a.args]
        nd = len(a.defaults)
        return set(pos[len(pos) - nd:]) if nd else set()
    return None


class _AttrNothing:
    def __repr__(self):
        return 'NOTHING'


ATTR_NOTHING = _AttrNothing()


class AttrField:
    """what attr.field(...) / attr.ib(...) leaves in the class body"""

    def __init__(self, default=ATTR_NOTHING, init=True, factory=None, **other):
        self.default, self.init, self.factory = default, init, factory


def attr_field(*args, **kw):
    if args:
        raise EngineLimit('attr.field with positional arguments')
    known = {k: kw[k] for k in ('default', 'init', 'factory') if k in kw}
    for k in kw:
        if k not in ('default', 'init', 'factory', 'repr', 'eq', 'order', 'hash', 'kw_only', 'metadata', 'type', 'alias'):
            raise EngineLimit('attr.field(%s=...)' % k)
    if kw.get('kw_only'):
        raise EngineLimit('attr.field(kw_only=True)')
    return AttrField(**known)


def attrs_define(interp, cls):
    """attr.define: __init__ taking the annotated fields in order (leading underscore stripped from the
    argument name), stored under the field name; fields declared with attr.field(default=..., init=False, factory=...)
    or with a plain class-level default are optional / not arguments at all"""
    all_fields = list(cls.ns.get('__annotations__', []))
    spec = {}
    for f in all_fields:
        v = cls.ns.get(f, ATTR_NOTHING)
        if isinstance(v, AttrField):
            spec[f] = v
        else:
            spec[f] = AttrField(default=v)
        cls.ns.pop(f, None)          # (slotted classes: the class-level name is the slot descriptor, not the default)
    fields = [f for f in all_fields if spec[f].init]

    def default_of(f):
        s = spec[f]
        if s.factory is not None:
            return interp.call(s.factory, [], [])
        return s.default

    def __init__(self, *args, **kw):
        names = [f.lstrip('_') for f in fields]
        if len(args) > len(fields):
            raise PyExc(TypeError, ('too many arguments',))
        vals = dict(zip(fields, args))
        for k, v in kw.items():
            if k not in names:
                raise PyExc(TypeError, ('unexpected keyword %r' % k,))
            vals[fields[names.index(k)]] = v
        for f in all_fields:
            if f not in vals:
                d = default_of(f)
                if d is ATTR_NOTHING:
                    if spec[f].init:
                        raise PyExc(TypeError, ('missing argument %r' % f,))
                    continue        # init=False without a default: the attribute is simply unset
                vals[f] = d
            self._d[f] = vals[f]

    class _AttrsInit:
        _vf_native = True
    _AttrsInit.__init__ = __init__
    cls.ns.pop('__annotations__', None)
    cls.mro.insert(1, _AttrsInit)
