#!/bin/sh
# Builds the offline overlay venv /verif/.venv (python 3.12 + z3-solver, cvc5, jsonschema, deal, icontract)
# and validates the spec oracle against CPython. Idempotent; safe to run concurrently (lock).
set -e
cd "$(dirname "$0")"
V=.venv
exec 9>.venv.lock
flock 9
if [ ! -x $V/bin/python ] || ! $V/bin/python -c 'import z3, cvc5, jsonschema, attr, sigtools' 2>/dev/null; then
  rm -rf $V
  /venv/bin/python -m venv $V
  PIP_NO_INDEX=1 $V/bin/pip install -q --no-index --find-links /opt/veriftools/wheels z3-solver cvc5 jsonschema deal icontract >/dev/null
  echo "import site; site.addsitedir('/venv/lib/python3.12/site-packages')" > $V/lib/python3.12/site-packages/_repo.pth
fi
$V/bin/python -c 'import z3, cvc5, jsonschema, attr, sigtools; print("venv ok", z3.get_version_string(), sigtools.__file__)'
