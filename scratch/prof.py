import sys, cProfile, pstats
sys.path.insert(0, '/verif'); sys.path.insert(0, '/verif/scratch')
import t_merge
stats = dict(paths=0, bad=[], limits=[], exc={}); stats['raise'] = 0
cProfile.run("t_merge.run_pair((0,1,1,0,1),(0,1,0,1,0),stats)", '/tmp/prof.out')
print(stats['paths'])
pstats.Stats('/tmp/prof.out').sort_stats('cumtime').print_stats(35)
