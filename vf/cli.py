"""./vcheck run Cxx --tier quick|thorough ; ./vcheck replay <file>
exit codes: 0 held / 1 violation / 2 undecided / 3 checker error"""
import argparse
import json
import os
import sys
import time

ROOT = os.path.dirname(os.path.dirname(os.path.abspath(__file__)))
sys.path.insert(0, ROOT)


def cmd_run(a):
    from vf import runner, evidence
    from checks import plan as P
    import contracts.common as CC
    t0 = time.time()
    tier = a.tier or os.environ.get('VERIF_TIER') or 'quick'
    seed = int(os.environ.get('VERIF_SEED', '0') or 0)
    prop = a.prop
    groups = P.plan(prop, tier, seed)
    if not groups:
        print('CHECKER-ERROR property=%s has no registered obligations' % prop)
        return 3
    tasks = []
    for g in groups:
        for t in g['tasks']:
            t['group'] = g['name']
            tasks.append(t)
    results = runner.run_pool(tasks, progress=a.progress)
    agg = runner.merge_results(results)
    per_group = {}
    for r in results:
        g = per_group.setdefault(r['task'].get('group', '?'), dict(tasks=0, paths=0, obligations=0, discharged=0))
        g['tasks'] += 1
        for k in ('paths', 'obligations', 'discharged'):
            g[k] += r[k]
    known = evidence.load_known()
    import glob
    for old in glob.glob(os.path.join(evidence.OUT, 'replays', prop, '*.json')):
        os.unlink(old)          # replay files belong to the run that wrote them
    import importlib
    for g in groups:
        for t in g['tasks'][:1]:
            importlib.import_module(t['module'])
    meta = {k: dict(observable=not getattr(c, 'internal', False), tier=c.tier, props=c.props) for k, c in CC.REGISTRY.items()}
    verdict = evidence.decide(prop, agg, meta, known)
    # vacuity guards
    if agg['obligations'] == 0 or agg['paths'] == 0:
        verdict['lines'].append('CHECKER-ERROR property=%s zero paths / zero obligations' % prop)
        verdict['exit'] = 3 if verdict['exit'] in (0, 2) else verdict['exit']
    canaries = agg.get('canaries', {})
    tiers = sorted({meta[k]['tier'] for k in agg['by_clause'] if k in meta})
    extra = dict(groups=[dict(name=g['name'], bound=g['bound'], exhaustive_within_bound=g['exhaustive'], **per_group.get(g['name'], {})) for g in groups],
                 tiers_of_deciding_obligations=tiers,
                 obligations_proved_all_inputs=sum(v[1] for k, v in agg['by_clause'].items() if meta.get(k, {}).get('tier') == 'P'),
                 obligations_bounded_deductive=sum(v[1] for k, v in agg['by_clause'].items() if meta.get(k, {}).get('tier') == 'B'),
                 obligations_runtime_standin=sum(v[1] for k, v in agg['by_clause'].items() if meta.get(k, {}).get('tier') == 'R'),
                 known_findings_reported=sorted(verdict['known_hits']),
                 source_sha256=evidence.source_hashes(sorted({'sigtools.' + u.split(':')[0] for u in agg['units_entered']} | {'sigtools._signatures'})),
                 functions_under_contract=sorted({k.split('/')[0] for k in agg['by_clause']}),
                 callees_replaced_by_their_contract=agg['summaries_used'],
                 external_calls_modelled=agg['externals_used'],
                 assumptions_extra=(['the contracts of the callees listed in callees_replaced_by_their_contract are ASSUMED at their call sites in this run and discharged '
                                     'on the callee\'s own body by the obligations of the units named after them (same check or the property that owns them)'] if agg['summaries_used'] else []) +
                 (['external calls (inspect.signature, inspect.getsource, ast.parse, eval, user forgers / hints / descriptors) return an arbitrary value of the stated kind or raise '
                   'an exception whose class is a solver variable restricted as follows: inspect.signature TypeError/ValueError; getsource OSError; ast.parse SyntaxError/ValueError; '
                   'user code any Exception (descriptor reads: not AttributeError); BaseException outside Exception excluded; data descriptors with __delete__ and objects refusing '
                   'setattr after a successful delattr excluded (DESCR, SETATTR)'] if agg['externals_used'] or any('retrieval' in (g['name']) or 'discovery' in g['name'] for g in groups) else []) +
                 (['EQ is WEAKENED in the reflexivity units of C14: == on default / annotation values is not assumed reflexive there'] if prop == 'C14' else []),
                 explanation='contract-based deductive verification of the real code: the functions listed in '
                 'functions_interpreted are re-read from /repo and symbolically executed from their AST on every run; '
                 'every clause of the sidecar contracts (contracts/*.py) that serves this property becomes one obligation '
                 'per feasible path, discharged by z3 (cvc5 for unknowns). Tier B obligations: parameter-list shapes '
                 'enumerated up to the stated bound, every name/default/annotation/provenance/call shape symbolic - '
                 'bounded, not proved. Tier P obligations hold for all inputs. exit 0 iff every obligation is discharged '
                 'or matches a listed known finding.',
                 exhaustive=all(g['exhaustive'] for g in groups))
    level = P.LEVELS.get(prop, 'other')
    evidence.write_evidence(prop, tier, seed, level, agg, verdict, extra, time.time() - t0)
    for l in verdict['lines']:
        print(l)
    print('%s %s: %d paths, %d obligations, %d discharged, %d failed (%d known), exit %d, %.1fs' % (
        prop, tier, agg['paths'], agg['obligations'], agg['discharged'], len(agg['failures']),
        sum(verdict['known_hits'].values()), verdict['exit'], time.time() - t0))
    return verdict['exit']


def cmd_replay(a):
    from vf import replay
    return replay.main(a.path)


def main():
    ap = argparse.ArgumentParser()
    sub = ap.add_subparsers(dest='cmd', required=True)
    r = sub.add_parser('run')
    r.add_argument('prop')
    r.add_argument('--tier', choices=['quick', 'thorough'])
    r.add_argument('--progress', action='store_true')
    p = sub.add_parser('replay')
    p.add_argument('path')
    a = ap.parse_args()
    if a.cmd == 'run':
        sys.exit(cmd_run(a))
    sys.exit(cmd_replay(a))


if __name__ == '__main__':
    main()
