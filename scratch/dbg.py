import sys, traceback
sys.path.insert(0, '/verif')
from vf import runner, harness, sym
from vf.harness import explore
import importlib
mod = importlib.import_module(sys.argv[1])
args = eval(sys.argv[2])
run, env = mod.make_runner(**args)
for r in explore(run):
    print(r.outcome, r.exc.typname if r.exc else '', r.exc.eargs if r.exc else '', getattr(r.exc, 'where', None), r.limit)
    break
