"""./vcheck replay <file>: re-derives the failed obligation recorded in a replay file on the CURRENT tree and replays
its counterexample against the real code under CPython.

The file (written by a check that printed VIOLATION) names the obligation, the task (contract module + input shape),
the path condition, the solver model and the concretised native input.  Replay re-runs that one task of the
generator on the sources as they are now, restricted to the recorded clause: every path on which the clause still
fails yields a fresh solver model, which is concretised and run through the REAL function natively.
exit 1 = the violation reproduces natively (or the obligation still fails without a concrete input),
exit 0 = the obligation is discharged on the current tree, exit 3 = the file cannot be replayed."""
import json
import sys


def main(path):
    from . import runner
    try:
        rec = json.load(open(path))
    except Exception as e:
        print('CHECKER-ERROR cannot read replay file: %s' % e)
        return 3
    mod = rec.get('module')
    if not mod:
        print('CHECKER-ERROR replay file carries no task module')
        return 3
    key = runner.clause_key(rec['obligation'])
    print('obligation: %s' % rec['obligation'])
    print('recorded  : %s' % json.dumps(rec.get('replay', {}), default=str)[:1200])
    args = rec['task']
    # JSON turned tuples into lists; the contract modules accept either
    args = {k: (tuple(v) if isinstance(v, list) and k in ('shape', 'kinds') else
                [tuple(x) if isinstance(x, list) else x for x in v] if k in ('shapes_',) else v) for k, v in args.items()}
    res = runner.run_task(dict(module=mod, want=rec.get('props') or None, args=args, max_replays_per_clause=5))
    if res['engine_errors']:
        print('CHECKER-ERROR %s' % res['engine_errors'][0][:1500])
        return 3
    fails = [f for f in res['failures'] if runner.clause_key(f['obligation']) == key]
    if not fails:
        print('DISCHARGED on the current tree: %s (%d paths, %d obligations of this task)' % (key, res['paths'], res['obligations']))
        return 0
    rep = [f for f in fails if f.get('replay', {}).get('status') in ('reproduced', 'other-violation')]
    for f in (rep or fails)[:3]:
        print('FAILS     : %s' % f['obligation'])
        print('  native  : %s' % json.dumps(f.get('replay', {}), default=str)[:1500])
    print('REPRODUCED natively' if rep else 'obligation still fails; no concrete failing input (no-failing-input-found)')
    return 1
