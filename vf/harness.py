"""Building symbolic inputs for the interpreted units, path exploration, VC discharge."""
import itertools
import time

import z3

from . import sym, spec
from .sym import (Ctx, set_ctx, SymName, SymVal, SymRef, SymInt, SymBool, MV, SymDict, SymSet, PyExc, EngineLimit,
                  EngineError, Infeasible, NameS, ValS, RefS, TList, EMPTY)
from .interp import Interp, Inst, source_index
from .spec import Z3Ops, P, View, CallShape, PO, POK, VP, KWO, VK


class UA:
    """upgraded-annotation token of an input parameter: stands for EmptyAnnotation when ``has`` is false,
    else for an annotation wrapper whose source_value() is ``denotes`` (ghost)"""

    def __init__(self, tag, has, denotes, raw=None, function=None):
        self.tag = tag
        self.has = has
        self.denotes = denotes      # the object the annotation denotes in the globals of its defining function
        self.raw = raw              # the raw annotation value (== the parameter's .annotation)
        self.function = function

    def __repr__(self):
        return 'UA(%s)' % self.tag

    def _vf_getattr(self, interp, name):
        if name == 'source_value':
            return lambda: self.source_value(interp)
        raise EngineLimit('attribute %s of an input annotation token' % name)      # never a Python-level AttributeError

    def source_value(self, interp):
        """the wrapper's REAL behaviour: a pre-evaluated wrapper returns the object, a postponed one evaluates the
        expression in the globals of its function (external ``eval``: may run arbitrary code)"""
        c = sym.CTX()
        if not c.decide(self.has):
            return EMPTY
        fn = self.function
        if fn is not None and c.decide(fn.postponed):
            from .world import Globals
            if interp.external_call is None:
                raise EngineLimit('eval without a model')
            return interp.external_call(interp, 'eval', [SymVal(self.raw), Globals(fn), {}], [])
        return SymVal(self.raw)

    interp = None

    def _vf_isinstance(self, interp, c):
        return getattr(c, 'name', None) == 'UpgradedAnnotation'

    def _real_eq(self, other):
        """run the REAL UpgradedAnnotation.__eq__ (as extracted) with this token as ``self``"""
        I = self.interp
        cls = I.module('sigtools._signatures').ns['UpgradedAnnotation']
        found, fn, _ = cls.lookup('__eq__')
        if not found:
            return self is other
        return bool(I.call(fn, [self, other], []))

    def _vf_selfeq(self):
        """``ua == ua``: no identity shortcut in the expression itself, the class's __eq__ decides"""
        if self.interp is not None:
            return self._real_eq(self)
        return sym.CTX().decide(z3.Or(z3.Not(self.has), sym.SELFEQ(self.denotes)))

    def _vf_eq(self, other):
        """UpgradedAnnotation.__eq__: source_value() == source_value() (the empty annotation's is ``empty``)"""
        if self.interp is not None:
            return self._real_eq(other)
        c = sym.CTX()
        if isinstance(other, UA):
            return c.decide(z3.Or(z3.And(z3.Not(self.has), z3.Not(other.has)), z3.And(self.has, other.has, self.denotes == other.denotes)))
        if isinstance(other, Inst) and other._cls.name == '_EmptyAnnotation':
            return c.decide(z3.Not(self.has))
        if isinstance(other, Inst) and any(getattr(k, 'name', None) == 'UpgradedAnnotation' for k in other._cls.mro):
            raise EngineLimit('comparison of an input annotation token with a wrapper built by the code')
        return False

    def __bool__(self):
        return True


class SigInfo:
    """everything the contracts need to know about one symbolic input signature"""

    def __init__(self):
        self.sig = None
        self.params = []      # Inst list in order
        self.names = []       # z3 Name terms in order
        self.funcs = []       # SymRef of the callables in its sources
        self.shape = None
        self.side = None
        self.src = None


def shapes(maxp, maxk, maxq, maxnamed, stars=((0, 0), (0, 1), (1, 0), (1, 1))):
    out = []
    for p in range(maxp + 1):
        for k in range(maxk + 1):
            for q in range(maxq + 1):
                if p + k + q > maxnamed:
                    continue
                for v, w in stars:
                    out.append((p, k, v, q, w))
    return out


def classes(interp):
    m = interp.module('sigtools._signatures')
    return m.ns['UpgradedParameter'], m.ns['UpgradedSignature'], m.ns['EmptyAnnotation']


def mk_param(interp, name, kind, default_mv, ann_mv, ua, function, sources, depths):
    """an input parameter, built by the REAL UpgradedParameter.__init__ (so that whatever the constructor establishes -
    including attributes a change adds - holds for the inputs); falls back to direct construction if the constructor
    cannot be interpreted on symbolic data"""
    UP, _, _ = classes(interp)
    p = None
    try:
        p = interp.instantiate(UP, [name, kind], [('default', default_mv), ('annotation', ann_mv), ('function', function), ('sources', sources),
                                                  ('source_depths', depths), ('upgraded_annotation', ua)])
        d = p._d
        if not (d.get('_name') is name and d.get('_kind') == kind and d.get('sources') is sources and d.get('upgraded_annotation') is ua):
            p = None
    except (PyExc, EngineLimit):
        p = None
    if p is None:
        p = Inst(UP)
        d = p._d
        d['_name'] = name
        d['_kind'] = kind
        d['_default'] = default_mv
        d['_annotation'] = ann_mv
        d['upgraded_annotation'] = ua
        d['_function'] = function
        d['sources'] = sources
        d['source_depths'] = depths
    d = p._d
    d['_vf_stands'] = [p]
    d['_vf_origin'] = p
    return p


def mk_sig(interp, ctx, side, shape, nfuncs=1, annotations=True, tracked=True):
    """A symbolic UpgradedSignature of the given shape: names, has_default, default values, annotations,
    provenance callables and depths are solver constants named after ``side``.
    Base constraints (added to ctx): names pairwise distinct; positional defaults form a suffix; depths >= 0;
    its own provenance callables pairwise distinct."""
    UP, US, EmptyAnn = classes(interp)
    Pn, K, V, Q, W = shape
    info = SigInfo()
    info.side = side
    info.shape = shape
    from .world import SymFunc
    # the defining function: a symbolic function object, compiled eagerly or with postponed annotations (symbolic)
    funcs = [SymFunc(z3.Const('f_%s%d' % (side, i), RefS), label='f_%s%d' % (side, i),
                     postponed=z3.Bool('postponed_f_%s%d' % (side, i))) for i in range(nfuncs)]
    info.postponed = funcs[0].postponed

    def den(raw):
        # ASSUMPTION COMPILER: an eagerly compiled function stores the object, a postponed one the expression,
        # which denotes evalin(expression, globals(f))
        return z3.If(funcs[0].postponed, sym.EVALIN(raw, funcs[0].t), raw)
    depth_terms = [z3.Int('depth_%s%d' % (side, i)) for i in range(nfuncs)]
    for dterm in depth_terms:
        ctx.add(dterm >= 0)
    if nfuncs > 1:
        ctx.add(z3.Distinct(*[f.t for f in funcs]))
    info.funcs = funcs
    info.depth_terms = depth_terms
    plist = []
    src = SymDict()

    def mk(tag, kind, star=False):
        nm = SymName(z3.Const('n_%s%s' % (side, tag), NameS))
        has = z3.BoolVal(False) if star else z3.Bool('h_%s%s' % (side, tag))
        dv = z3.Const('d_%s%s' % (side, tag), ValS)
        if annotations:
            ahas = z3.Bool('ah_%s%s' % (side, tag))
            av = z3.Const('a_%s%s' % (side, tag), ValS)
            ua = UA('%s%s' % (side, tag), ahas, den(av), raw=av, function=funcs[0])
            ua.interp = interp
        else:
            ahas = z3.BoolVal(False)
            av = sym.NONEVAL
            ua = EmptyAnn
        # which of the signature's callables declare this parameter: the first always, the others symbolically
        mine = funcs[:2] if (nfuncs > 1 and not plist) else funcs[:1]      # (the first parameter is also declared by the second callable)
        psrc = TList(list(mine))
        pdepths = SymDict()
        pdepths.items_ = [(f_, SymInt(depth_terms[j_])) for j_, f_ in enumerate(mine)]
        p = mk_param(interp, nm, kind, MV(has, dv), MV(ahas, av), ua, funcs[0], psrc, pdepths)
        p._d['_vf_tag'] = '%s%s' % (side, tag)
        plist.append(p)
        info.names.append(nm.t)
        src.items_.append((nm, psrc))
        if tracked:
            sym.mark_input(psrc, 'sources[%s%s]' % (side, tag))
            sym.mark_input(p, 'param %s%s' % (side, tag))

    for i in range(Pn):
        mk('p%d' % i, PO)
    for i in range(K):
        mk('k%d' % i, POK)
    if V:
        mk('va', VP, True)
    for i in range(Q):
        mk('q%d' % i, KWO)
    if W:
        mk('vk', VK, True)
    if len(info.names) > 1:
        ctx.add(z3.Distinct(*info.names))
    pos = [p for p in plist if p._d['_kind'] in (PO, POK)]
    for a, b in zip(pos, pos[1:]):
        ctx.add(z3.Implies(a._d['_default'].has, b._d['_default'].has))
    depths = SymDict()
    depths.items_ = [(f, SymInt(dt)) for f, dt in zip(funcs, depth_terms)]
    src.items_.append(('+depths', depths))
    from .models import ParamsView
    rah = z3.Bool('rah_%s' % side) if annotations else z3.BoolVal(False)
    ret_mv = MV(rah, z3.Const('ra_%s' % side, ValS))
    s = None
    try:
        # the REAL UpgradedSignature.__init__ (see mk_param)
        s = interp.instantiate(US, [list(plist)], [('return_annotation', ret_mv), ('sources', src)])
        pv = s._d.get('_parameters')
        if not (isinstance(pv, ParamsView) and len(pv.plist) == len(plist) and all(a is b for a, b in zip(pv.plist, plist)) and s._d.get('sources') is src):
            s = None
    except (PyExc, EngineLimit) as _e:
        import os as _os
        if _os.environ.get('VF_DEBUG'):
            print('mk_sig: constructor fallback:', repr(_e), getattr(_e, 'eargs', None))
        s = None
    if s is None:
        s = Inst(US)
        s._d['_parameters'] = ParamsView(plist)
    s._d['_return_annotation'] = ret_mv
    s._d['sources'] = src
    s._d['upgraded_return_annotation'] = UA('%s.return' % side, rah, den(z3.Const('ra_%s' % side, ValS)), raw=z3.Const('ra_%s' % side, ValS), function=funcs[0]) if annotations else EmptyAnn
    if annotations:
        s._d['upgraded_return_annotation'].interp = interp
    if tracked:
        sym.mark_input(src, 'sources map of %s' % side)
        sym.mark_input(depths, 'depths map of %s' % side)
        sym.mark_input(s, 'signature %s' % side)
    info.sig = s
    info.params = plist
    info.src = src
    info.depths = depths
    return info


def strip_provenance(info):
    """turn the symbolic input into a signature assembled by hand from parameters: no provenance at all (sources == {},
    what UpgradedSignature(parameters) or an upgraded plain inspect.Signature carries)"""
    empty = SymDict()
    sym.mark_input(empty, 'sources map of %s (empty)' % info.side)
    info.sig._d['sources'] = empty
    info.src = empty
    info.bare = True
    for p in info.params:
        p._d['sources'] = TList([])
        p._d['source_depths'] = SymDict()


def same_signature_term(a, b):
    """z3 condition 'the two symbolic inputs are the same signature' (None when their shapes differ)"""
    if a.shape != b.shape:
        return None
    cs = [a.depth_terms[0] == b.depth_terms[0], a.postponed == b.postponed]
    for p, q in zip(a.params, b.params):
        for k in ('_default', '_annotation'):
            cs.append(p._d[k].has == q._d[k].has)
            cs.append(p._d[k].val == q._d[k].val)
        cs.append(p._d['_name'].t == q._d['_name'].t)
    ra, rb = a.sig._d['_return_annotation'], b.sig._d['_return_annotation']
    cs += [ra.has == rb.has, ra.val == rb.val]
    return z3.And(*cs)


def pview(p):
    """spec view of a model parameter"""
    d = p._d
    return P(d['_name'].t if isinstance(d['_name'], SymName) else d['_name'], d['_kind'], d['_default'].has, obj=p)


def sig_view(sig):
    return View([pview(p) for p in sig._d['_parameters'].plist])


def plist_view(plist):
    return View([pview(p) for p in plist])


def mk_call(name_terms, tag='c', nforeign=2):
    """fresh symbolic call shape over candidate keyword names = the given name terms + foreign names.
    returns (CallShape, side constraints)"""
    n = z3.Int('n_' + tag)
    fk = [z3.Const('foreign%d_%s' % (i, tag), NameS) for i in range(nforeign)]
    cand = list(name_terms) + fk
    bs = [z3.Bool('kw%d_%s' % (i, tag)) for i in range(len(cand))]
    cons = [n >= 0]
    if nforeign > 1:
        cons.append(z3.Distinct(*fk))
    for f in fk:
        for x in name_terms:
            cons.append(f != x)
    return CallShape(Z3Ops, n, list(zip(bs, cand))), cons


# --------------------------------------------------------------------------- exploration
class PathResult:
    __slots__ = ('ctx', 'outcome', 'value', 'exc', 'interp', 'inputs', 'limit', 'extra')

    def __init__(self):
        self.ctx = None
        self.outcome = None
        self.value = None
        self.exc = None
        self.interp = None
        self.inputs = None
        self.limit = None
        self.extra = {}


def explore(run, max_paths=200000, timeout_ms=10000, part=None, frontier=1200):
    """run(ctx) -> PathResult fields set by the callee via return dict(outcome=..., ...).
    Yields PathResult for every feasible path of the unit (depth-first over decision prefixes).

    part=(i, n): this call explores the i-th of n disjoint parts of the unit's decision tree, so that one big unit can be
    spread over n pool tasks.  Phase 1 (identical in every part, deterministic): expand the pending prefix expected to
    head the LARGEST subtree (estimate: the number of forking decisions its sibling path took after the branching point)
    until at least ``frontier`` subtrees are pending; the paths completed in phase 1 belong to part 0.  Phase 2: the
    pending subtrees are dealt to the parts by estimated size (largest first, to the lightest part); part i explores its
    share depth-first.  The parts are disjoint and their union is the whole tree (every path is either completed in
    phase 1 or lies below exactly one pending prefix) - the estimate only affects the balance."""
    work = [[]]
    n = 0
    if part is not None:
        i_part, n_parts = part
        weight = {0: 0}          # id(prefix list) is not stable: key by position in ``work`` through a parallel list
        wts = [0]
        while work and len(work) < frontier:
            k = max(range(len(work)), key=lambda j: (wts[j], -j))
            prefix = work.pop(k)
            wts.pop(k)
            ctx = Ctx(prefix, timeout_ms=timeout_ms)
            set_ctx(ctx)
            sym.clear_inputs()
            r = PathResult()
            r.ctx = ctx
            try:
                run(ctx, r)
            except Infeasible:
                r.outcome = 'infeasible'
            except EngineLimit as e:
                r.outcome = 'limit'
                r.limit = str(e)
            alts = ctx.alternatives()
            forks = [j for j in range(len(prefix), len(ctx.trace)) if ctx.trace[j][1]]
            for a in alts:
                work.append(a)
                wts.append(sum(1 for j in forks if j >= len(a)))      # forking decisions the sibling took after the branching point
            n += 1
            if i_part == 0:
                yield r
        order = sorted(range(len(work)), key=lambda j: (-wts[j], j))
        load = [0] * n_parts
        mine = []
        for j in order:
            p = min(range(n_parts), key=lambda q: (load[q], q))
            load[p] += 2 ** min(wts[j], 40)
            if p == i_part:
                mine.append(work[j])
        work = list(reversed(mine))
    while work:
        prefix = work.pop()
        ctx = Ctx(prefix, timeout_ms=timeout_ms)
        set_ctx(ctx)
        sym.clear_inputs()
        r = PathResult()
        r.ctx = ctx
        try:
            run(ctx, r)
        except Infeasible:
            r.outcome = 'infeasible'
        except EngineLimit as e:
            r.outcome = 'limit'
            r.limit = str(e)
        work.extend(ctx.alternatives())
        n += 1
        yield r
        if n >= max_paths:
            raise EngineLimit('path budget exceeded')


def run_unit(interp, fn, args, kwpairs, r):
    """call an interpreted callable, recording the outcome in r"""
    try:
        v = interp.call(fn, list(args), list(kwpairs))
        r.outcome = 'return'
        r.value = v
    except PyExc as e:
        r.outcome = 'raise'
        r.exc = e
    return r


class VC:
    """one verification condition: under the path condition (in ctx.solver) and ``assume``, ``goal`` holds"""
    __slots__ = ('name', 'assume', 'goal', 'props')

    def __init__(self, name, assume, goal, props=()):
        self.name = name
        self.assume = list(assume)
        self.goal = goal
        self.props = props


def discharge(ctx, vc, stats):
    """returns ('unsat', None) discharged | ('sat', model) | ('unknown', reason)"""
    s = ctx.solver
    goal = vc.goal
    if isinstance(goal, bool):
        goal = z3.BoolVal(goal)
    g = z3.simplify(goal)
    stats['obligations'] = stats.get('obligations', 0) + 1
    if z3.is_true(g):
        stats['trivial'] = stats.get('trivial', 0) + 1
        stats['discharged'] = stats.get('discharged', 0) + 1
        return 'unsat', None
    s.push()
    try:
        for a in vc.assume:
            s.add(a)
        s.add(z3.Not(g))
        t0 = time.time()
        r = s.check()
        stats['z3_s'] = stats.get('z3_s', 0.0) + time.time() - t0
        stats['z3_queries'] = stats.get('z3_queries', 0) + 1
        if r == z3.unsat:
            stats['discharged'] = stats.get('discharged', 0) + 1
            return 'unsat', None
        if r == z3.sat:
            return 'sat', s.model()
        # second back end
        smt2 = s.to_smt2()
    finally:
        s.pop()
    from .backend import cvc5_check
    t0 = time.time()
    r2 = cvc5_check(smt2)
    stats['cvc5_s'] = stats.get('cvc5_s', 0.0) + time.time() - t0
    stats['cvc5_queries'] = stats.get('cvc5_queries', 0) + 1
    if r2 == 'unsat':
        stats['discharged'] = stats.get('discharged', 0) + 1
        stats['discharged_cvc5'] = stats.get('discharged_cvc5', 0) + 1
        return 'unsat', None
    return 'unknown', 'z3 unknown, cvc5 %s' % r2
