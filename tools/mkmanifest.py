#!/usr/bin/env python3
"""regenerates /verif/MANIFEST.json from the table below (single source of truth for the interface)"""
import json, os, sys
ROOT = os.path.dirname(os.path.dirname(os.path.abspath(__file__)))
BOUND_Q = '<=3 named parameters per signature (<=1 positional-only, <=2 positional-or-keyword, <=1 keyword-only), stars present or not'
TECH = 'contract-based deductive verification: VCs generated from the real AST by own symbolic executor, discharged by z3 (cvc5 second back end); '
B = 'bounded-deductive (tier B): parameter-list shapes enumerated up to a stated bound, every name/default/annotation/provenance/flag/count and every call shape symbolic'
CLAIMED = {
 'C01': dict(units='merge, _Merger.__iter__/_merge and helpers, sort_params, apply_params (_concile_meta, summarised by its contract)',
             text='Clauses (i) pure calls and (ii) non-colliding calls on role-consistent inputs are postconditions of the real merge; every feasible path of the interpreted code for every shape pair (and sampled triples) up to the bound is discharged for ALL names, defaults and ALL call shapes. The bucket-consistency postcondition of the merger step, asserted at its boundary in every fold step, carries the n-ary clause. ' + B + '; not an unbounded proof.'),
 'C02': dict(units='embed, _embed (with _Merger inlined and asserted), sort_params, apply_params', text='soundness, exactness (with the stated exception), raise-only-when, bare-outer identity and the 3-ary fold law as postconditions / relational clauses of the real embed. ' + B),
 'C03': dict(units='mask, _mask, sort_params, apply_params, copy_sources', text='exact residual acceptance, raise-only-if-impossible, order independence, mask(sig,0), mask∘mask, hide_* flags only remove + weak soundness with explicit witness, as postconditions / relational clauses of the real mask; n and the masked names symbolic. ' + B),
 'C04': dict(units='_signatures.forwards (+ embed, mask inlined); _specifiers.forged_signature', text='forwards = embed∘mask (parameters, return annotation, provenance) as a relational clause over two interpreted runs, and the safety/exactness statement of the property directly as postcondition of forwards for every call shape, all seven flags/counts symbolic. Forger glue (tier P): forged_signature uses a non-None forger result as THE result and lets every exception of an explicit forger surface (no silent fallback to a signature the wrapper cannot honour). The decorators that BUILD the forger (forwards_to_*, _ForgerWrapper descriptor plumbing) are not under contract. ' + B),
 'C08': dict(units='merge, embed, mask, forwards, signatures.signature (plain and partial), copy_sources, default_sources, merge_depths, UpgradedParameter._upgrade', text='provenance well-formedness (one entry per parameter, non-empty, duplicate free, depth known, declared), exactness on consistently named inputs and the depth rules as postconditions of every algebra function and of plain retrieval. ' + B),
 'C09': dict(units='merge, _Merger, sort_params, apply_params, mask, embed', text='exactness and raise-only-if-no-common-call for name-aligned pairs; identities (mask(sig,0), bare-outer embed); bucket consistency for the fold. ' + B),
 'C10': dict(units='_concile_meta (contract used as summary), merge, embed, mask, forwards, partial retrieval', text='optional-only-if-all, common default or None, agreed annotation, kind only restricted, positional order kept, outer before inner, outer defaults dropped only before a required inner positional, partial keywords become keyword-only with the bound value: postconditions over ghost stands_for / origin fields that travel with replace(). ' + B),
 'C11': dict(units='UpgradedAnnotation.upgrade, _PostponedAnnotation/_PreEvaluatedAnnotation.source_value (interpreted), UpgradedParameter._upgrade, replace, merge/embed/mask/forwards', text='source_value() of every upgraded annotation of a retrieved signature equals the object the annotation denotes in the defining function globals (eval modelled as the uninterpreted evalin(raw, f)); the upgraded annotation of every combined parameter denotes its annotation. ' + B),
 'C12': dict(units='_PokTranslator._prepare, _PokTranslator.__call__, _kwoargs_start, _posoargs_end, _autokwoargs (forged_signature of the wrapped plain function summarised by its contract: the def-signature)',
             text='_prepare: ValueError exactly for the inadmissible selections, otherwise the advertised signature is the stated rewrite (selected parameters positional-only in place / keyword-only after *args, order, defaults, annotations kept) and kwopos is the invariant __call__ needs; __call__ (run after the real _prepare): with the CALL axiom on the wrapped function the call goes through exactly when the advertised signature accepts it and every parameter receives the value the advertised binding assigns it; start=/end=/exceptions= forms hand exactly the stated name set on and do not modify the collections passed in. NOT under contract: the decorator plumbing that constructs the translator (__new__/__init__, update_wrapper, partial) and bound-method access through OverrideableDataDesc.__get__. ' + B),
 'C20': dict(units='support.bind_callsig, sort_callsigs, make_up_callsigs (tier B); s, f, func_from_sig, read_sig, func_code, make_func (tier R only)',
             text='bind_callsig raises TypeError exactly when CPython binding rejects the call (keyword NAMES symbolic) and returns the mapping the binding assigns, apart from the excluded positional-only-name-with-**kwargs case; sort_callsigs partitions accordingly keeping order; make_up_callsigs contains every prefix x subset exactly once. The string <-> code helpers are regex/exec code outside the generator: checked by a RUNTIME contract on the real functions over an enumerated universe (bounded stand-in, labelled tier R, never counted as proved). ' + B),
 'C14': dict(units='UpgradedParameter.__eq__/replace, UpgradedSignature.__eq__/replace/__init__, the two class objects (__hash__, inherited str/bind), plain retrieval',
             text='== against every kind of operand (itself, upgraded twin, plain inspect object with the same or with symbolic data, None, foreign object) returns True/False/NotImplemented without raising, is reflexive, equals the plain twin, implies equality of the inherited hash basis; the classes keep the inherited __hash__, __str__, bind, bind_partial; replace() keeps type, provenance and upgraded annotations unless overridden; __init__ stores exactly the inherited state. Parameter-level obligations are tier P (loop-free, all fields symbolic, all kinds); signature-level ones ' + B),
 'C15': dict(units='merge, embed, mask, forwards', text='only ValueError escapes (IncompatibleSignatures on role-consistent inputs), results are valid upgraded signatures with +depths - on every path, exceptional ones included. ' + B),
 'C16': dict(units='merge, embed, mask, forwards, sort_params, apply_params; autoforwards_function, cleanup_functools_wrapper.__enter__/__exit__, forged_signature (get_introspectable, iter_call, autoforwards, autoforwards_method inlined; autoforwards_ast summarised by its contract), _AsForged.__get__', text='frame obligations on the interpreted heap: no write to any object reachable from an input on any path (normal or exceptional), result provenance map/lists not shared with inputs (tier B). Retrieval (tier P, symbolic object with per-attribute instance-dict/type presence, every external call may raise an exception of a solver-chosen class): autoforwards_function/cleanup_functools_wrapper and forged_signature leave the instance dict of every inspected object as it was on EVERY exit; _AsForged.__get__ leaves its recursion guard as it was. ' + B),
 'C19': dict(units='signatures.signature (partial branch), _mask in partial mode, set_default_sources, upgrade path', text='exactness against the def-signature for every call shape with |args| and the bound keyword names/values symbolic, keyword-only conversion with bound default, provenance and depths. Discovery through partials not yet under contract. ' + B),
}
NA = {
 'C17': 'concurrency: contracts describe one activation; the generator has no thread/interleaving model, no contract within reach decides a property quantified over schedules (DESIGN section 6)',
 'C18': 'quantified over operation histories and garbage-collector reachability (weak references); contracts here have no model of object lifetime (DESIGN section 6)',
}
PENDING = 'machinery for this property is not finished in this round (see DESIGN.md section 12); not claimed rather than claimed on machinery that does not exist'
ids = [json.loads(l)['id'] for l in open(os.path.join(ROOT, 'properties.jsonl'))]
checks = []
for pid in ids:
    if pid not in CLAIMED:
        continue
    c = CLAIMED[pid]
    checks.append(dict(property_id=pid, quick_cmd='./vcheck run %s --tier quick' % pid, thorough_cmd='./vcheck run %s --tier thorough' % pid,
                       evidence_file='evidence/%s.json' % pid, replay_cmd_template='./vcheck replay {path}', engine='sigvc',
                       level_claimed=dict(category=c.get('category', 'other'), text=c['text'], design_ref='DESIGN.md section 5 (%s) and section 12' % pid),
                       level_note='functions under contract: ' + c['units'] + '. Trusted: z3/cvc5; the interpreter and its native models of list/dict/itertools/inspect.Parameter/inspect.Signature (cross-checked against CPython on one concrete witness per explored path); the spec oracle `accepts` (validated against really calling functions); assumptions EQ/HASH/NAMES/DECORATORS listed in every evidence file. Bounded, not proved, beyond the shape bound in the evidence.',
                       technique=TECH + ('tier B' if c.get('category', 'other') == 'other' else 'tier P')))
na = [dict(property_id=p, reason=NA.get(p, PENDING)) for p in ids if p not in CLAIMED]
m = dict(version=1, setup_cmd='./setup.sh',
         hooks=dict(guard='SIGTOOLS_VERIF', enable='none needed: contracts are a sidecar under /verif keyed by qualified function name; /repo is read, never instrumented',
                    baseline_off_cmd='cd /repo && /venv/bin/python -m pytest -ra -q -p no:cacheprovider --timeout=900 --continue-on-collection-errors',
                    source_commits=[], add_only=True),
         engines=[dict(name='sigvc', path='vf/', serves_properties=sorted(CLAIMED), kind_free_text='VC generator: symbolic executor over the ast of /repo/sigtools/*.py (re-read every run) + sidecar contracts (contracts/*.py) + z3/cvc5; native replay and per-path CPython cross-check')],
         checks=checks,
         notes='Exit codes of every command: 0 held / 1 violation (VIOLATION line) / 2 undecided / 3 checker error. Genuine defects repaired in /repo by fix: commits and recorded findings are listed in known_findings.json.',
         not_applicable=na)
json.dump(m, open(os.path.join(ROOT, 'MANIFEST.json'), 'w'), indent=1)
import jsonschema
jsonschema.validate(m, json.load(open('/root/.vp/MANIFEST.schema.json')))
print('MANIFEST ok:', len(checks), 'checks,', len(na), 'not applicable')
