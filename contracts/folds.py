"""The n-ary clause of C01 for EVERY number of inputs (tier P): the real body of ``merge`` is executed over an ABSTRACT
sequence of signatures (symbolic length n >= 1); its loop is checked against an inductive invariant (init / preservation /
use) with the loop-carried variables havocked; the callees are replaced by their contracts:

   sort_params(s, sources=True)   S1  accepts_sp(result, c) <=> accepts(s, c);  bucket_consistent(result)
   _Merger(l, r)                  M1  requires bucket_consistent(l), bucket_consistent(r);
                                      for every PURE call c: accepts_sp(result, c) => accepts_sp(l, c) and accepts_sp(r, c);
                                  M3  bucket_consistent(result);   raises only ValueError
   apply_params(s0, *sp)          A1  requires bucket_consistent(sp);  accepts(result, c) <=> accepts_sp(sp, c)
 (S1 / M1 / M3 / A1 are discharged on the real bodies by contracts.merge at tier B: this proof is RELATIVE to them, for
 all n; what it adds is the fold itself - every input is merged in, in order, none skipped, the accumulated value is
 threaded correctly, the loop is not left early.)

 _signatures.merge
   inv:fold_sound_pure      C01  invariant  I(k): for every pure call c, accepts_sp(ret, c) => accepts(s_j, c) for all j < k,
                                 and bucket_consistent(ret);  k = number of leading signatures merged in so far
   post:nary_sound_pure     C01  for every pure call c: accepts(merge(s_0..s_{n-1}), c) => accepts(s_j, c) for ALL j < n
   raises:step_errors_wrapped C15  a ValueError of a step leaves merge as IncompatibleSignatures; nothing else escapes the loop
   pre:callee_preconditions      every call site satisfies the callee's requires (bucket consistency)
"""
import z3

from vf import sym, harness
from vf.sym import SymInt, PyExc, EngineLimit, CTX, Opaque
from vf.interp import Interp, Inst, IClass, BreakEx, ContinueEx
from vf.harness import VC
from .common import clause

U = '_signatures.merge'
F_INV = clause(U, 'inv:fold_sound_pure', ['C01'], 'P')
F_POST = clause(U, 'post:nary_sound_pure', ['C01'], 'P')
F_WRAP = clause(U, 'raises:step_errors_wrapped', ['C15', 'C01'], 'P')
F_PRE = clause(U, 'pre:callee_preconditions', ['C01'], 'P')

CallS = z3.DeclareSort('Call')
ACC_SIG = z3.Function('accepts_input', z3.IntSort(), CallS, z3.BoolSort())      # accepts(s_j, c)
ACC_ALL = z3.Function('accepts_all_below', z3.IntSort(), CallS, z3.BoolSort())  # forall j < k: accepts(s_j, c)
PURE = z3.Function('pure', CallS, z3.BoolSort())


class PathEnd(Exception):
    """the path of an arbitrary loop iteration ends after the preservation obligation"""


class AbsSig:
    """signature number ``index`` of the abstract input sequence (index: z3 Int term)"""

    def __init__(self, index):
        self.index = index

    def acc(self, c):
        return ACC_SIG(self.index, c)

    def _vf_getattr(self, interp, name):
        raise EngineLimit('attribute %s of an abstract signature' % name)

    def __bool__(self):
        return True


class AbsSP:
    """an abstract SortedParameters value: its acceptance predicate is a fresh uninterpreted function"""
    n = 0

    def __init__(self, tag):
        AbsSP.n += 1
        self.f = z3.Function('accepts_sp_%s_%d' % (tag, AbsSP.n), CallS, z3.BoolSort())
        self.bucket_consistent = True
        self.tag = tag

    def acc(self, c):
        return self.f(c)


class Tok:
    """one of the six fields of an abstract SortedParameters record"""

    def __init__(self, sp, i):
        self.sp, self.i = sp, i

    def __bool__(self):
        # whether this bucket is empty is not known in the abstraction: both ways are explored
        return CTX().decide(z3.Bool('bucket_%d_of_%s_nonempty' % (self.i, self.sp.f.name())))


class AbsSeq:
    """the tuple ``signatures``: symbolic length n >= 1"""
    _vf_abstract_iter = True

    def __init__(self, n, start=0, enum_start=None):
        self.n, self.start, self.enum_start = n, start, enum_start

    def __bool__(self):
        return True          # len >= 1 (the unit's precondition: ``assert signatures``)

    def _vf_getitem(self, interp, k):
        if isinstance(k, int) and k >= 0:
            if self.start + k > 0:
                # an element beyond the first exists only when n is large enough
                if not CTX().decide(self.n > self.start + k):
                    raise PyExc(IndexError, ('tuple index out of range',))
            return AbsSig(z3.IntVal(self.start + k))
        raise EngineLimit('abstract sequence index %r' % (k,))

    def _vf_slice(self, interp, lo, hi, st):
        if st is not None:
            raise EngineLimit('abstract slice with step')
        if hi is None and isinstance(lo, int) and lo >= 0:
            return AbsSeq(self.n, self.start + lo)
        return Opaque('a slice of the input tuple')

    def _vf_len(self, interp):
        return SymInt(self.n - self.start)


def sp_record(SP, sp):
    return SP(*[Tok(sp, i) for i in range(6)])


def sp_of(x):
    """the abstract value behind a SortedParameters record (all six fields must belong to the same value, in order)"""
    toks = list(x)
    if len(toks) == 6 and all(isinstance(t, Tok) for t in toks) and all(t.sp is toks[0].sp for t in toks) and [t.i for t in toks] == list(range(6)):
        return toks[0].sp
    return None


def make_runner(want=None):
    I = Interp()
    m = I.module('sigtools._signatures')
    SP = m.ns['SortedParameters']
    env = {'interp': I}

    def run(ctx, r):
        env['r'] = r
        env['vcs'] = []
        env['pre_ok'] = True
        n = z3.Int('number_of_signatures')
        ctx.add(n >= 1)
        # Every hypothesis and every goal below is a statement "for every call c: phi(c)" about ONE call; the goals are
        # proved for an arbitrary call c0 from the hypotheses instantiated at c0 - which proves them for every call -
        # so the obligations are quantifier free.  The definition of AccAll over k is instantiated where it is used:
        # AccAll(0, c); AccAll(k + 1, c) <=> AccAll(k, c) and accepts(s_k, c)
        c = z3.Const('c0_an_arbitrary_call', CallS)

        def unfold(k):
            ctx.add(ACC_ALL(k + 1, c) == z3.And(ACC_ALL(k, c), ACC_SIG(k, c)))
        ctx.add(ACC_ALL(0, c))
        unfold(z3.IntVal(0))
        env['c'] = c
        env.update(n=n)
        sigs = AbsSeq(n)

        def inv(sp, k):
            return z3.Implies(z3.And(PURE(c), sp.acc(c)), ACC_ALL(k, c))

        def sort_params(interp_, clo, args, kwpairs):
            s = args[0]
            if not isinstance(s, AbsSig) or not dict(kwpairs).get('sources'):
                raise EngineLimit('sort_params called on %r without sources=True' % (s,))
            sp = AbsSP('sorted')
            ctx.add(sp.acc(c) == s.acc(c))          # S1 (at c0)
            sp.of_sig = s
            return sp_record(SP, sp)
        I.call_hooks['_signatures:sort_params'] = sort_params

        Merger = m.ns['_Merger']

        def merger_new(interp_, clo, args, kwpairs):
            # _Merger(l, r): the constructor only stores its operands; iteration performs the merge
            return NotImplemented
        merged = env['merged'] = []

        def merger_iter(interp_, clo, args, kwpairs):
            self_ = args[0]
            l, rr = sp_of(self_._d['l']), sp_of(self_._d['r'])
            if l is None or rr is None or not (l.bucket_consistent and rr.bucket_consistent):
                env['pre_ok'] = False          # call-site precondition of the merger contract
                raise EngineLimit('merger called on something that is not a sorted-parameters value')
            if ctx.decide(ctx.fresh('step_raises_ValueError', z3.BoolSort())):
                raise PyExc(ValueError, ('Unmatched parameter',))
            res = AbsSP('merged')
            ctx.add(z3.Implies(z3.And(PURE(c), res.acc(c)), z3.And(l.acc(c), rr.acc(c))))      # M1 (at c0)
            merged.append((l, rr, res))
            return iter([Tok(res, i) for i in range(6)])
        I.call_hooks['_signatures:_Merger.__iter__'] = merger_iter

        def apply_params(interp_, clo, args, kwpairs):
            s0 = args[0]
            sp = sp_of(args[1:7]) if len(args) >= 7 else None
            if sp is None or not sp.bucket_consistent or not isinstance(s0, AbsSig):
                env['pre_ok'] = False
                raise EngineLimit('apply_params called with %d positional arguments that are not one sorted-parameters value' % (len(args) - 1))
            env['applied'] = (s0, sp)
            out = AbsSP('result')
            ctx.add(out.acc(c) == sp.acc(c))       # A1 (at c0)
            env['result_sp'] = out
            return out
        I.call_hooks['_signatures:apply_params'] = apply_params

        # ---------------------------------------------------------------- the loop rule
        def loop(interp_, s, itv, frame):
            if not (isinstance(itv, AbsSeq) and itv.enum_start is not None):
                raise EngineLimit('loop over an abstract iterable of an unexpected form')
            ret0 = sp_of(frame.vars.get('ret')) if frame.vars.get('ret') is not None else None
            if ret0 is None:
                raise EngineLimit('loop-carried variable ``ret`` is not a sorted-parameters value')
            # init: I(1) holds for the value computed before the loop
            env['vcs'].append(VC(F_INV.full + ':init', [], inv(ret0, z3.IntVal(1)), F_INV.props))
            length = itv.n - itv.start                # number of iterations
            if ctx.decide(z3.And(length > 0, ctx.fresh('at_an_arbitrary_iteration', z3.BoolSort()))):
                t = ctx.fresh('iteration', z3.IntSort())
                ctx.add(z3.And(t >= 0, t < length))
                kk = 1 + t                            # signatures merged in before this iteration
                unfold(kk)
                cur = AbsSP('havocked_ret')
                ctx.add(inv(cur, kk))
                frame.vars['ret'] = sp_record(SP, cur)
                elem = AbsSig(itv.start + t)
                interp_.assign(s.target, (SymInt(itv.enum_start + t), elem), frame)
                try:
                    yield from interp_.exec_block(s.body, frame)
                except ContinueEx:
                    pass
                except BreakEx:
                    return                            # leaves the loop early with the current state: continue after it
                new = sp_of(frame.vars['ret'])
                if new is None:
                    env['pre_ok'] = False
                    raise EngineLimit('``ret`` is not a sorted-parameters value after the body')
                env['vcs'].append(VC(F_INV.full + ':preserved', [], z3.And(inv(new, kk + 1), z3.BoolVal(bool(new.bucket_consistent))), F_INV.props))
                raise PathEnd()
            # the loop has run to completion: I(1 + length)
            fin = AbsSP('ret_after_loop')
            ctx.add(inv(fin, 1 + z3.If(length > 0, length, 0)))
            frame.vars['ret'] = sp_record(SP, fin)
            env['k_final'] = 1 + z3.If(length > 0, length, 0)
            if s.orelse:
                yield from interp_.exec_block(s.orelse, frame)
        I.abstract_loop_handler = loop

        def enum(x, start=0):
            if isinstance(x, AbsSeq):
                return AbsSeq(x.n, x.start, enum_start=start)
            return enumerate(I.iter_(x), start)
        I.builtins['enumerate'] = enum
        try:
            v = I.call(m.ns['merge'], [], [('__star__', None)]) if False else None
        except Exception:
            pass
        try:
            frame_args = sigs
            # merge(*signatures): bind the star parameter to the abstract tuple directly
            clo = m.ns['merge']
            fr = I.bind(clo, [], [])
            fr.vars['signatures'] = sigs
            try:
                for _ in I.exec_block(clo.node.body, fr):
                    raise EngineLimit('yield in merge')
                r.outcome, r.value = 'return', None
            except PathEnd:
                r.outcome, r.value = 'return', 'iteration'
        except PyExc as e:
            r.outcome, r.exc = 'raise', e
        except Exception as e:
            from vf.interp import ReturnEx
            if isinstance(e, ReturnEx):
                r.outcome, r.value = 'return', e.v
            else:
                raise
    return run, env


def vcs(env, want):
    r = env['r']
    I = env['interp']
    out = []

    def on(c):
        return want is None or any(p in want for p in c.props)
    for v in env['vcs']:
        if on(F_INV):
            out.append(v)
    if on(F_PRE):
        out.append(VC(F_PRE.full, [], z3.BoolVal(bool(env['pre_ok'])), F_PRE.props))
    c = env['c']
    n = env['n']
    if r.outcome == 'raise':
        if on(F_WRAP):
            t = r.exc.typ
            ok = isinstance(t, IClass) and t.name == 'IncompatibleSignatures'
            out.append(VC(F_WRAP.full + ':' + r.exc.typname, [], z3.BoolVal(bool(ok)), F_WRAP.props))
        return out
    if r.value == 'iteration':
        return out
    res = r.value
    if on(F_POST):
        if not isinstance(res, AbsSP):
            out.append(VC(F_POST.full + ':returns_apply_params_result', [], z3.BoolVal(False), F_POST.props))
        else:
            s0 = env['applied'][0]
            goal = z3.Implies(z3.And(PURE(c), res.acc(c)), ACC_ALL(n, c))
            out.append(VC(F_POST.full, [], goal, F_POST.props))
            out.append(VC(F_POST.full + ':based_on_first_signature', [], s0.index == 0, F_POST.props))
    return out


def replay(env, vc, model):
    """an abstract lemma has no concrete input of its own: the witness search is the bounded 3-ary check of contracts.merge"""
    return dict(status='no-replay', op='fold lemma (abstract sequence of signatures)', note='see the tier-B obligations merge/post:sound_pure on triples for a concrete witness')


crosscheck = None
