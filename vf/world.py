"""Symbolic external objects: user functions, code objects, partial objects, plain inspect signatures.

A SymFunc stands for an arbitrary Python function object f:
  * identity: a Ref term (provenance key)
  * inspect.signature(f) is its def-signature (assumption INSPECT), given by the harness as a plain signature
  * f.__code__.co_flags & CO_FUTURE_ANNOTATIONS is the symbolic Boolean ``postponed``
  * f.__globals__ is an opaque token; eval(raw, f.__globals__, {}) is the uninterpreted evalin(raw, f)
  * attribute presence (instance dict / class) of the names sigtools looks at is symbolic where configured
"""
import z3

from . import sym
from .sym import SymRef, SymBool, SymInt, SymVal, SymName, MV, PyExc, EngineLimit, RefS, ValS, EMPTY, SymDict
from .models import NParameter, NSignature, ParamsView, PO, POK, VP, KWO, VK

EVALIN = sym.EVALIN      # value of an annotation expression in a function's globals


class FlagWord:
    def __init__(self, postponed):
        self.postponed = postponed

    def _vf_and(self, other):
        return SymBool(self.postponed)


class SymCode:
    def __init__(self, func):
        self.func = func

    def _vf_getattr(self, interp, name):
        if name == 'co_flags':
            return FlagWord(self.func.postponed)
        if name == 'co_filename':
            return sym.Opaque('filename')
        if name == 'co_freevars':
            return ()
        raise EngineLimit('code attribute %s' % name)


class Globals:
    def __init__(self, func):
        self.func = func


class SymFunc(SymRef):
    """a user-defined function object"""
    __slots__ = ('postponed', 'def_sig', 'attrs', 'has_code')

    def __init__(self, t, label=None, postponed=None, def_sig=None):
        SymRef.__init__(self, t, label)
        self.postponed = postponed if postponed is not None else z3.Bool('postponed_%s' % t)
        self.def_sig = def_sig
        self.attrs = {}
        self.has_code = True

    def _vf_getattr(self, interp, name):
        if name in self.attrs:
            return self.attrs[name]
        if name == '__code__' and self.has_code:
            return SymCode(self)
        if name == '__globals__':
            return Globals(self)
        if name in ('__name__', '__qualname__', '__module__', '__doc__'):
            return sym.Opaque(name)
        raise PyExc(AttributeError, ("'function' object has no attribute %r" % name,))

    def _vf_setattr(self, interp, name, v):
        sym.note_write(self)
        self.attrs[name] = v

    def _vf_delattr(self, interp, name):
        if name in self.attrs:
            sym.note_write(self)
            del self.attrs[name]
        else:
            raise PyExc(AttributeError, (name,))

    def _vf_callable(self, interp):
        return True

    def _vf_type(self, interp):
        from .models import FUNCTION_TYPE
        return FUNCTION_TYPE


class SymArgs(tuple):
    """the bound positional arguments of a partial object: symbolic length, opaque elements"""

    def __new__(cls, n):
        o = tuple.__new__(cls, ())
        o.n = n
        return o

    def _vf_len(self, interp):
        return self.n


_PLAIN = {}


def plain_classes(interp):
    """plain inspect.Parameter / inspect.Signature as interpreted classes over the native models"""
    from .interp import IClass
    k = id(interp)
    if k not in _PLAIN:
        _PLAIN.clear()
        _PLAIN[k] = (IClass('Parameter', [NParameter], {}, None, interp), IClass('Signature', [NSignature], {}, None, interp))
    return _PLAIN[k]


def plain_signature(interp, info):
    """the plain (not upgraded) inspect.Signature with the data of a symbolic SigInfo: what inspect.signature(f) returns"""
    from .interp import Inst
    PP, PS = plain_classes(interp)
    ps = []
    for p in info.params:
        q = Inst(PP)
        for k in ('_name', '_kind', '_default', '_annotation'):
            q._d[k] = p._d[k]
        q._d['_vf_tag'] = p._d.get('_vf_tag')
        q._d['_vf_origin'] = p
        ps.append(q)
    s = Inst(PS)
    s._d['_parameters'] = ParamsView(ps)
    s._d['_return_annotation'] = info.sig._d['_return_annotation']
    return s


def install_externals(interp, funcs, extra=None):
    """model of the calls that leave sigtools. funcs: {refkey(str of term): SymFunc}"""
    def external(interp_, name, args, kwpairs):
        if name == 'inspect.signature':
            o = args[0]
            # ASSUMPTION INSPECT-WRAPPED: inspect.signature follows __wrapped__ up to an object with an explicit __signature__
            seen = 0
            while isinstance(o, SymFunc) and o.def_sig is None and '__wrapped__' in o.attrs and '__signature__' not in o.attrs and seen < 8:
                o = o.attrs['__wrapped__']
                seen += 1
            if isinstance(o, SymFunc) and o.def_sig is not None:
                return o.def_sig
            if extra is not None:
                r = extra(interp_, name, args, kwpairs)
                if r is not NotImplemented:
                    return r
            raise EngineLimit('inspect.signature of %r' % (o,))
        if name == 'eval':
            raw, g = args[0], args[1]
            if isinstance(g, Globals):
                from .objects import may_raise
                may_raise(interp_, 'eval')        # evaluating an annotation runs arbitrary user code
                rv = sym.to_mv(raw).val if not isinstance(raw, SymVal) else raw.t
                if sym.EPOCH[0]:
                    return SymVal(sym.EVALIN_AT(rv, g.func.t, z3.IntVal(sym.EPOCH[0])))
                return SymVal(EVALIN(rv, g.func.t))
            raise EngineLimit('eval outside a function globals')
        if extra is not None:
            r = extra(interp_, name, args, kwpairs)
            if r is not NotImplemented:
                return r
        raise EngineLimit('external call %s' % name)
    interp.external_call = external


class SymPartial(SymRef):
    """a functools.partial object: identity term + func / args / keywords"""
    __slots__ = ('func', 'args', 'keywords', 'attrs')
    _vf_is_partial = True

    def __init__(self, t, func, args, keywords, label='partial'):
        SymRef.__init__(self, t, label)
        self.func = func
        self.args = args
        self.keywords = keywords
        self.attrs = {}

    def _vf_getattr(self, interp, name):
        if name in ('func', 'args', 'keywords'):
            return getattr(self, name)
        if name in self.attrs:
            return self.attrs[name]
        raise PyExc(AttributeError, ("'functools.partial' object has no attribute %r" % name,))

    def _vf_setattr(self, interp, name, v):
        sym.note_write(self)
        self.attrs[name] = v

    def _vf_delattr(self, interp, name):
        if name in self.attrs:
            sym.note_write(self)
            del self.attrs[name]
        else:
            raise PyExc(AttributeError, (name,))

    def _vf_callable(self, interp):
        return True

    def _vf_type(self, interp):
        from .models import PlainTypeModel
        return PlainTypeModel('partial')
