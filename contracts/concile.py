"""Contract of sigtools._signatures._Merger._concile_meta discharged on its REAL body (tier P).

The unit is loop free; its two operands are fully symbolic parameters (name, has_default, default value,
has_annotation, annotation value, upgraded annotation token; the parameter kind ranges over the five-element
enumeration, one task per pair of kinds) - so the explored paths cover ALL inputs and the obligations are
proved, not bounded.  Everywhere else (merge / embed / forwards runs) calls of this unit are replaced by
exactly this contract (contracts.common.install_concile_summary, mode 'summarise'); the clause
``post:equals_summary`` is what licenses that replacement.

 _signatures._Merger._concile_meta
   post:equals_summary          the result's default / annotation / upgraded annotation are what the summary
                                formula (common.concile_formula) says; every other field is the left operand's
   post:optional_iff_both   C10 result optional <=> both operands optional
   post:default_common_or_None C10 default is the common default, or None when they differ
   post:annotation_agreed   C10 annotation = the one all annotated operands agree on, otherwise none
   post:name_kind_left      C10/C09 name and kind of the left operand
   post:ua_travels          C11 the upgraded annotation is the wrapper of the operand whose annotation was kept
                                (EmptyAnnotation when none is kept) - so it denotes the kept annotation
   raises:nothing           C15
   frame:operands_unchanged C16
"""
import z3

from vf import sym
from vf.sym import MV, SymName, NONEVAL, PyExc, EngineLimit
from vf.spec import PO, POK, VP, KWO, VK
from vf.interp import Interp, Inst
from vf.harness import VC, mk_sig, run_unit
from .common import clause, concile_formula, ua_denotes, ua_follows_goal

U = '_signatures._Merger._concile_meta'
C_SUM = clause(U, 'post:equals_summary', ['C01', 'C02', 'C04', 'C08', 'C09', 'C10', 'C11', 'C15', 'C16', 'C19'], 'P',
               'licenses the use of the contract as call summary in every other unit')
C_OPT = clause(U, 'post:optional_iff_both', ['C10'], 'P')
C_DEF = clause(U, 'post:default_common_or_None', ['C10'], 'P')
C_ANN = clause(U, 'post:annotation_agreed', ['C10'], 'P')
C_NK = clause(U, 'post:name_kind_left', ['C10', 'C09'], 'P')
C_UA = clause(U, 'post:ua_travels', ['C11'], 'P')
C_RAISE = clause(U, 'raises:nothing', ['C15'], 'P')
C_FRAME = clause(U, 'frame:operands_unchanged', ['C16'], 'P')

KIND_SHAPE = {PO: (1, 0, 0, 0, 0), POK: (0, 1, 0, 0, 0), VP: (0, 0, 1, 0, 0), KWO: (0, 0, 0, 1, 0), VK: (0, 0, 0, 0, 1)}


def make_runner(kinds, want=None):
    I = Interp()
    from vf import world as _world
    _world.install_externals(I, {})     # eval(expression, f.__globals__) is the uninterpreted evalin
    m = I.module('sigtools._signatures')
    env = {'interp': I}
    Merger = m.ns['_Merger']

    def run(ctx, r):
        li = mk_sig(I, ctx, 'l', KIND_SHAPE[kinds[0]])
        ri = mk_sig(I, ctx, 'r', KIND_SHAPE[kinds[1]])
        l, rp = li.params[0], ri.params[0]
        # star parameters never carry a default in a valid signature, everything else is unconstrained
        env.update(l=l, rp=rp, r=r, infos=[li, ri])
        found, fn, _ = Merger.lookup('_concile_meta')
        if not found:
            env['absent'] = True
            r.outcome = 'return'
            r.value = None
            return
        run_unit(I, fn, [Inst(Merger), l, rp], [], r)
    return run, env


def vcs(env, want):
    r = env['r']
    I = env['interp']
    out = []
    if env.get('absent'):
        return out       # unit refactored away: its callers are then verified with the code inlined

    def on(c):
        return want is None or any(p in want for p in c.props)
    l, rp = env['l'], env['rp']
    m = I.module('sigtools._signatures')
    EmptyAnn = m.ns['EmptyAnnotation']
    if on(C_FRAME):
        out.append(VC(C_FRAME.full, [], z3.BoolVal(not r.ctx.heap_writes), C_FRAME.props))
    if r.outcome == 'raise':
        if on(C_RAISE):
            out.append(VC(C_RAISE.full, [], z3.BoolVal(False), C_RAISE.props))
        return out
    res = r.value
    if not (isinstance(res, Inst) and '_default' in res._d):
        out.append(VC(C_SUM.full + ':is_parameter', [], z3.BoolVal(False), C_SUM.props))
        return out
    d, a = res._d['_default'], res._d['_annotation']
    ld, rd = l._d['_default'], rp._d['_default']
    la, ra = l._d['_annotation'], rp._d['_annotation']
    dmv, amv, tl, tr = concile_formula(l, rp)
    ua = res._d['upgraded_annotation']
    # semantic comparison: the wrapper denotes what the kept operand's wrapper denotes (none when none is kept)
    h, den = ua_denotes(ua, EmptyAnn)
    lh, lden = ua_denotes(l._d['upgraded_annotation'], EmptyAnn)
    rh, rden = ua_denotes(rp._d['upgraded_annotation'], EmptyAnn)
    ua_ok = z3.And(z3.Implies(tl, z3.And(h, den == lden)), z3.Implies(tr, z3.And(h, den == rden)),
                   z3.Implies(z3.Not(z3.Or(tl, tr)), z3.Not(h)))
    same_name = res._d['_name'] is l._d['_name'] or (isinstance(res._d['_name'], SymName) and res._d['_name'].t.eq(l._d['_name'].t))
    rest_left = (same_name and res._d['_kind'] == l._d['_kind'] and res._d['_function'] is l._d['_function'] and
                 res._d['sources'] is l._d['sources'] and res._d['source_depths'] is l._d['source_depths'])
    if on(C_SUM):
        out.append(VC(C_SUM.full + ':default', [], z3.And(d.has == dmv.has, z3.Implies(d.has, d.val == dmv.val)), C_SUM.props))
        out.append(VC(C_SUM.full + ':annotation', [], z3.And(a.has == amv.has, z3.Implies(a.has, a.val == amv.val)), C_SUM.props))
        out.append(VC(C_SUM.full + ':upgraded_annotation', [], ua_ok, C_SUM.props))
        out.append(VC(C_SUM.full + ':rest_is_left', [], z3.BoolVal(bool(rest_left)), C_SUM.props))
        out.append(VC(C_SUM.full + ':fresh_object', [], z3.BoolVal(res is not l and res is not rp), C_SUM.props))
    # ---- the property's own sentences, stated independently of the summary formula
    if on(C_OPT):
        out.append(VC(C_OPT.full, [], d.has == z3.And(ld.has, rd.has), C_OPT.props))
    if on(C_DEF):
        out.append(VC(C_DEF.full, [d.has], z3.If(ld.val == rd.val, d.val == ld.val, d.val == NONEVAL), C_DEF.props))
    if on(C_ANN):
        agree = z3.Implies(z3.And(la.has, ra.has), la.val == ra.val)
        some = z3.Or(la.has, ra.has)
        goal = z3.And(a.has == z3.And(some, agree),
                      z3.Implies(a.has, z3.And(z3.Implies(la.has, a.val == la.val), z3.Implies(ra.has, a.val == ra.val))))
        out.append(VC(C_ANN.full, [], goal, C_ANN.props))
    if on(C_NK):
        out.append(VC(C_NK.full, [], z3.BoolVal(bool(same_name and res._d['_kind'] == l._d['_kind'])), C_NK.props))
    if on(C_UA):
        out.append(VC(C_UA.full, [], ua_follows_goal(res, EmptyAnn, cands=[l, rp]), C_UA.props))
    return out


def _build(conc, info):
    """a real UpgradedParameter for the single parameter of ``info``"""
    from sigtools import _signatures
    import inspect
    (name, kind, has, dv, ahas, av), = conc.param_specs(info)
    E = inspect.Parameter.empty
    return _signatures.UpgradedParameter(
        name, inspect._ParameterKind(kind), default=dv if has else E, annotation=av if ahas else E,
        upgraded_annotation=_signatures.UpgradedAnnotation.preevaluated(av if ahas else E))


def _native(env, model):
    from vf.concrete import Concretizer, real_sigtools
    real_sigtools()
    from sigtools import _signatures
    import inspect
    conc = Concretizer(model)
    l, rp = [list(conc.build_sig(i).parameters.values())[0] for i in env['infos']]
    try:
        res = _signatures._Merger._concile_meta(None, l, rp)
    except Exception as e:
        return conc, l, rp, ('raise', e)
    return conc, l, rp, ('return', res)


def check_native(l, rp, oc):
    """the clauses of the contract evaluated concretely"""
    import inspect
    E = inspect.Parameter.empty
    bad = []
    if oc[0] == 'raise':
        return [('raises:nothing', repr(oc[1]))]
    res = oc[1]
    both = l.default is not E and rp.default is not E
    if (res.default is not E) != both:
        bad.append(('post:optional_iff_both', 'result default %r' % (res.default,)))
    elif both and res.default != (l.default if l.default == rp.default else None):
        bad.append(('post:default_common_or_None', 'result default %r' % (res.default,)))
    anns = [p.annotation for p in (l, rp) if p.annotation is not E]
    exp = anns[0] if anns and all(x == anns[0] for x in anns) else E
    if (res.annotation is E) != (exp is E) or (exp is not E and res.annotation != exp):
        bad.append(('post:annotation_agreed', 'result annotation %r expected %r' % (res.annotation, exp)))
    if res.name != l.name or res.kind != l.kind:
        bad.append(('post:name_kind_left', '%s %s' % (res.name, res.kind)))
    sv = res.upgraded_annotation.source_value()
    if (sv is E) != (res.annotation is E) or (sv is not E and sv != res.annotation):
        bad.append(('post:ua_travels', 'source_value %r annotation %r' % (sv, res.annotation)))
    return bad


def _mixed_modes_same_raw(env, model):
    """both operands annotated, compiled in DIFFERENT modes, with the same raw annotation value in the model: the native
    realisation has no counterpart (a postponed function stores the expression text, an eager one the object: natively the two
    raw values are equal only if the eager annotation is that very string) - the symbolic model over-approximates here"""
    from vf.concrete import Concretizer
    conc = Concretizer(model)
    a, b = env['infos']
    pa, pb = a.params[0]._d['_annotation'], b.params[0]._d['_annotation']
    return (conc.boolean(pa.has) and conc.boolean(pb.has) and conc.boolean(a.postponed) != conc.boolean(b.postponed)
            and conc.val(pa.val) == conc.val(pb.val))


def replay(env, vc, model):
    if _mixed_modes_same_raw(env, model):
        return dict(status='no-replay', op='concile', note='counterexample compares the raw annotation of a postponed function with an equal raw '
                    'annotation of an eagerly compiled one: not realisable with compiled functions (the postponed one stores the expression text)')
    conc, l, rp, oc = _native(env, model)
    bad = check_native(l, rp, oc)
    # equals_summary is the conjunction of the independent clauses on concrete data
    key = vc.name.split('/', 1)[1].split('#')[0]
    key = ':'.join(key.split(':')[:2])
    hit = [b for b in bad if b[0] == key or key == 'post:equals_summary']
    return dict(status='reproduced' if hit else ('other-violation' if bad else 'not-reproduced'), op='concile',
                inputs=[str(l), str(rp)], kinds=[int(l.kind), int(rp.kind)],
                native_outcome=(str(oc[1]) if oc[0] == 'return' else repr(oc[1])), violated=[list(b) for b in (hit or bad)])


def crosscheck(env, r):
    s = r.ctx.solver
    if s.check() != z3.sat:
        return 'path condition not satisfiable at path end'
    if env.get('absent'):
        return None
    if _mixed_modes_same_raw(env, s.model()):
        return None
    conc, l, rp, oc = _native(env, s.model())
    if r.outcome == 'raise':
        return None if oc[0] == 'raise' and type(oc[1]).__name__ == r.exc.typname else 'symbolic raise %s, native %r' % (r.exc.typname, oc)
    if oc[0] == 'raise':
        return 'symbolic return, native raise %r' % (oc[1],)
    import inspect
    E = inspect.Parameter.empty
    res, nat = r.value, oc[1]
    d, a = res._d['_default'], res._d['_annotation']
    sym_data = (conc.name(res._d['_name']), res._d['_kind'], conc.boolean(d.has), conc.val(d.val) if conc.boolean(d.has) else None,
                conc.boolean(a.has), conc.val(a.val) if conc.boolean(a.has) else None)
    from vf.concrete import ann_raw       # (a postponed native function stores the spelling A<raw> of the raw value)
    nat_data = (nat.name, int(nat.kind), nat.default is not E, nat.default if nat.default is not E else None,
                nat.annotation is not E, ann_raw(nat.annotation) if nat.annotation is not E else None)
    if sym_data != nat_data:
        return 'results differ on %s, %s: symbolic %r native %r' % (l, rp, sym_data, nat_data)
    return None
