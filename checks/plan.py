"""Which obligations decide which property, and with which bounds (quick / thorough)."""
import itertools

from vf import harness

LEVELS = {}      # property -> evidence level category


def _merge_tasks(want, bound, arity, sample=None, seed=0):
    shs = harness.shapes(*bound)
    combos = list(itertools.product(shs, repeat=arity))
    if sample is not None and len(combos) > sample:
        import random
        rnd = random.Random(seed)
        combos = rnd.sample(combos, sample)
    return [dict(module='contracts.merge', want=sorted(want), args=dict(shapes_=list(c))) for c in combos]


def bound_text(bound):
    return 'per signature: <=%d positional-only, <=%d positional-or-keyword, <=%d keyword-only, <=%d named in total, *args/**kwargs present or not' % (bound[0], bound[1], bound[2], bound[3])


def plan(prop, tier, seed=0):
    """returns list of job groups: dict(name, tasks, bound, exhaustive)"""
    q = tier == 'quick'
    groups = []
    if prop in ('C01', 'C09', 'C10', 'C08', 'C15', 'C16', 'C11'):
        b2 = (1, 2, 1, 3) if q else (2, 2, 2, 4)
        b3 = (1, 1, 1, 2) if q else (1, 2, 1, 3)
        groups.append(dict(name='merge/2-ary', tasks=_merge_tasks({prop}, b2, 2), bound=bound_text(b2), exhaustive=True))
        s3 = 400 if q else 12000
        groups.append(dict(name='merge/3-ary', tasks=_merge_tasks({prop}, b3, 3, sample=s3, seed=seed), bound=bound_text(b3) + '; %d shape triples drawn with VERIF_SEED when the full product is larger' % s3,
                           exhaustive=False))
    return groups
