"""From solver models to real objects, and the CPython oracle.

* Concretizer: maps a z3 model to identifiers / ints / real functions and builds REAL sigtools signatures
  (through ``sigtools.signatures.signature`` of a function compiled with the def-signature) for a SigInfo.
* real_accepts: acceptance decided by REALLY CALLING a function compiled from the parameter list.
* cview: spec.View (PyOps) of a real inspect.Signature.
"""
import inspect
import os
import sys
import warnings

import z3

from . import spec, sym
from .spec import PyOps, P, View, CallShape, PO, POK, VP, KWO, VK

_REPO = os.environ.get('VF_REPO', '/repo')


def real_sigtools():
    """import the sigtools under verification (VF_REPO first on sys.path)"""
    repo = os.environ.get('VF_REPO', '/repo')
    if sys.path[0] != repo:
        sys.path.insert(0, repo)
    import sigtools
    if not os.path.abspath(sigtools.__file__).startswith(os.path.abspath(repo)):
        raise sym.EngineError('sigtools imported from %s, expected %s' % (sigtools.__file__, repo))
    from sigtools import signatures, _signatures, specifiers, modifiers, support, wrappers, _autoforwards, _util
    return sigtools


KINDS = [inspect.Parameter.POSITIONAL_ONLY, inspect.Parameter.POSITIONAL_OR_KEYWORD, inspect.Parameter.VAR_POSITIONAL,
         inspect.Parameter.KEYWORD_ONLY, inspect.Parameter.VAR_KEYWORD]
IDENTS = ['a', 'b', 'c', 'd', 'e', 'g', 'h', 'i', 'j', 'k', 'l', 'm', 'o', 'p', 'q', 'r', 's', 't', 'u', 'v', 'w', 'x', 'y', 'z',
          'aa', 'bb', 'cc', 'dd', 'ee', 'gg', 'hh', 'ii', 'jj', 'kk']


class Concretizer:
    def __init__(self, model):
        self.m = model
        self._names = {}
        self._vals = {}
        self._refs = {}
        self.none_key = str(self.m.eval(sym.NONEVAL, model_completion=True))

    def ev(self, t):
        return self.m.eval(t, model_completion=True)

    def name(self, t):
        if isinstance(t, str):
            return t
        if isinstance(t, sym.SymName):
            t = t.t
        k = str(self.ev(t))
        if k not in self._names:
            self._names[k] = IDENTS[len(self._names)]
        return self._names[k]

    def val(self, t):
        if isinstance(t, sym.SymVal):
            t = t.t
        k = str(self.ev(t))
        if k == self.none_key:
            return None
        if k not in self._vals:
            n = len(self._vals) + 1
            # a value the model makes falsy (truthy(v) false) is realised as a falsy number, distinct per value
            falsy = z3.is_false(self.m.eval(sym.TRUTHY(t), model_completion=False)) if hasattr(self, 'm') else False
            if falsy:
                unused = [x for x in (0, '', (), frozenset(), b'') if not any(type(v) is type(x) and v == x for v in self._vals.values())]
                self._vals[k] = unused[0] if unused else 0
            else:
                self._vals[k] = n
        return self._vals[k]

    def boolean(self, t):
        if isinstance(t, bool):
            return t
        return z3.is_true(self.ev(t))

    def integer(self, t):
        if isinstance(t, int):
            return t
        if isinstance(t, sym.SymInt):
            t = t.t
        return self.ev(t).as_long()

    def refkey(self, t):
        if isinstance(t, sym.SymRef):
            t = t.t
        return str(self.ev(t))

    def func(self, t, maker):
        k = self.refkey(t)
        if k not in self._refs:
            self._refs[k] = maker(len(self._refs))
        return self._refs[k]

    # ---------------------------------------------------------------- signatures
    def param_specs(self, info):
        """[(name, kind, has_default, default, has_annotation, annotation)] of a SigInfo under the model"""
        out = []
        for p in info.params:
            d = p._d
            out.append((self.name(d['_name']), d['_kind'], self.boolean(d['_default'].has), self.val(d['_default'].val),
                        self.boolean(d['_annotation'].has), self.val(d['_annotation'].val)))
        return out

    def postponed_env(self, info):
        """None when the input's defining function is compiled eagerly under the model; otherwise the globals of
        a function compiled with ``from __future__ import annotations``: its annotation expressions are the names
        A<raw> and evaluate (in ITS globals) to the object evalin(raw, f) of the model (same value space as eager annotation objects)"""
        post = getattr(info, 'postponed', None)
        if post is None or not self.boolean(post):
            return None
        g = {}
        if getattr(self, 'unevaluable', False):
            return g        # the annotation expressions name nothing the function's globals define: eval raises NameError
        raws = [p._d['_annotation'] for p in info.params] + [info.sig._d['_return_annotation']]
        for mv in raws:
            if self.boolean(mv.has):
                raw = self.val(mv.val)
                den = self.val(sym.EVALIN(mv.val, info.funcs[0].t))
                g[ann_name(raw)] = den
        return g

    def build_sig(self, info, with_depth=True):
        """REAL UpgradedSignature for a symbolic input: the signature of a freshly compiled function with that
        def parameter list (so that provenance is truthful), its depth set to the model's value."""
        real_sigtools()
        from sigtools import _signatures
        specs = self.param_specs(info)
        ra = info.sig._d['_return_annotation']
        ret = self.val(ra.val) if self.boolean(ra.has) else inspect.Signature.empty
        genv = self.postponed_env(info)
        fn = self.func(info.funcs[0], lambda i: make_function(specs, 'f_%s' % info.side, ret, postponed_globals=genv))
        if param_string(specs, genv is not None) != getattr(fn, '_vf_params', None):
            # the same callable term is shared by two inputs of different parameter lists: not realisable
            fn = make_function(specs, 'f_%s_' % info.side, ret, postponed_globals=genv)
        sig = _signatures.signature(fn)
        if with_depth:
            dep = self.integer(info.depth_terms[0])
            sig.sources['+depths'][fn] = dep
            for p in sig.parameters.values():
                p.source_depths[fn] = dep
        return sig

    def build_input(self, info, **kw):
        """build_sig, honouring harness.strip_provenance"""
        sig = self.build_sig(info, **kw)
        if getattr(info, 'bare', False):
            ps = [p.replace(sources=[], source_depths={}) for p in sig.parameters.values()]
            sig = type(sig)(ps, return_annotation=sig.return_annotation, upgraded_return_annotation=sig.upgraded_return_annotation)
        return sig

    def add_extra_callables(self, infos, sigs):
        """second pass (after every input's defining function exists): the further callables of an input's provenance -
        the very function object of another input when the model identifies them - enter '+depths', and the sources of
        the first parameter"""
        for info, sig in zip(infos, sigs):
            for j in range(1, len(info.funcs)):
                g = self.func(info.funcs[j], lambda i: make_function([], 'extra_%s%d' % (info.side, j)))
                dep = self.integer(info.depth_terms[j])
                sig.sources['+depths'][g] = dep
                ps = list(sig.parameters.values())
                if ps:
                    if g not in sig.sources[ps[0].name]:
                        sig.sources[ps[0].name].append(g)
                    ps[0].source_depths[g] = dep
        return sigs

    def call(self, c):
        n = self.integer(c.n)
        S = []
        for b, t in c.cands:
            if self.boolean(b):
                nm = self.name(t)
                if nm not in S:
                    S.append(nm)
        return n, tuple(S)


def ann_name(raw):
    """spelling of the annotation expression with raw value ``raw`` in a postponed function"""
    return 'A_None' if raw is None else 'A%d' % raw


def ann_raw(a):
    """inverse: the raw value of a native annotation (postponed functions carry the spelling)"""
    if isinstance(a, str) and a.startswith('A'):
        return None if a == 'A_None' else int(a[1:])
    return a


def param_string(specs, postponed=False):
    parts = []
    kinds = [k for _, k, *_ in specs]
    for i, (name, kind, has, dv, ahas, av) in enumerate(specs):
        s = name
        if kind == VP:
            s = '*' + s
        elif kind == VK:
            s = '**' + s
        if ahas:
            s += ': %s' % (ann_name(av) if postponed else repr(av),)
        if has:
            s += ('=%r' if not ahas else ' = %r') % (dv,)
        if kind == KWO and VP not in kinds and (i == 0 or kinds[i - 1] != KWO):
            parts.append('*')
        parts.append(s)
        if kind == PO and (i + 1 == len(specs) or kinds[i + 1] != PO):
            parts.append('/')
    return ', '.join(parts)


_FN_COUNTER = [0]


def make_function(specs, name='f', ret=inspect.Signature.empty, body='return locals()', postponed_globals=None):
    _FN_COUNTER[0] += 1
    post = postponed_globals is not None
    ps = param_string(specs, post)
    rs = '' if ret is inspect.Signature.empty else ' -> %s' % (ann_name(ret) if post else repr(ret),)
    src = '%sdef %s(%s)%s:\n    %s\n' % ('from __future__ import annotations\n' if post else '', name, ps, rs, body)
    ns = dict(postponed_globals or {})
    exec(compile(src, '<vf-concrete-%d>' % _FN_COUNTER[0], 'exec'), ns)
    fn = ns[name]
    fn._vf_params = ps
    fn._vf_src = src
    return fn


# --------------------------------------------------------------------------- views and the CPython oracle
def cview(sig):
    """spec.View (concrete) of a real signature"""
    ps = []
    for p in sig.parameters.values():
        ps.append(P(p.name, int(p.kind), p.default is not p.empty, obj=p))
    return View(ps)


def cview_params(params):
    return View([P(p.name, int(p.kind), p.default is not p.empty, obj=p) for p in params])


_ORACLE_CACHE = {}


def _oracle_fn(view):
    specs = [(p.name, p.kind, bool(p.has), 0, False, None) for p in view.params]
    key = param_string(specs)
    fn = _ORACLE_CACHE.get(key)
    if fn is None:
        fn = make_function(specs, 'oracle', body='return None')
        _ORACLE_CACHE[key] = fn
    return fn


def real_accepts(view, n, S):
    """acceptance by really calling a function with that parameter list"""
    fn = _oracle_fn(view)
    try:
        fn(*([0] * n), **{k: 0 for k in S})
        return True
    except TypeError:
        return False


def spec_accepts(view, n, S):
    c = CallShape(PyOps, n, [(True, k) for k in S])
    return spec.accepts(PyOps, view, c)


def ccall(n, S):
    return CallShape(PyOps, n, [(True, k) for k in S])


def sig_str(sig):
    try:
        return str(sig)
    except Exception as e:      # pragma: no cover
        return '<unprintable %r>' % (e,)


def quiet():
    warnings.simplefilter('ignore')
