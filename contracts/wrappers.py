"""Contracts of sigtools.wrappers (C13: decorator / wrapper_decorator / Combination are call-transparent).  Tier P: the
wrapped callable is a symbolic object (which attributes its __dict__ carries is symbolic), wrapper functions are
symbolic callables that record how they are called and may raise; argument lists have an enumerated length with
symbolic values.

 wrappers._SimpleWrapped.__init__ / wrappers._Wrapped.__init__
   post:state                 func is functools.partial(wrapper, wrapped); __wrapped__ is wrapped; _sigtools__wrappers == (wrapper,)
   post:class_signature_effective   whatever update_wrapper copied from the wrapped callable, the instance dict holds neither
                              __signature__ nor _sigtools__forger afterwards - so inspect.signature and sigtools.signature see
                              the class-level as_forged descriptor / forger, i.e. the signature INCLUDING the decorator's own
                              parameters, not the wrapped callable's
 wrappers._SimpleWrapped.__call__ / wrappers._Wrapped.__call__
   post:transparent           returns exactly what wrapper(wrapped, *args, **kwargs) returns, calls it once with exactly
                              those arguments, and propagates its exception unchanged
 wrappers.Combination.__call__
   post:fold                  f_n(... f_2(f_1(arg, *a, **k), *a, **k) ..., *a, **k); exceptions propagate; later functions
                              are not called after a failure
 wrappers.Combination.__init__      post:flattened   nested Combinations are spliced in order
 wrappers.Combination.get_signature post:merge_of_parts  = merge(signatures.signature(self), *[specifiers.signature(f) for f in functions])
 wrappers._Wrapped._sigtools__forger post:forwards     = specifiers.forwards(self.func, self.__wrapped__, *f_args, **f_kwargs)
 wrappers.wrappers                   post:outermost_first   the wrapping functions along the __wrapped__ chain, outermost first
 wrappers._SimpleWrapped.__get__ / _Wrapped.__get__   post:rebinds   a new wrapper of the same class and wrapper function around
                              the BOUND inner object (binding is delegated to the wrapped callable's own __get__)

Not under contract here: that binding removes exactly the first parameter of the reported signature (this is the bound
method's own signature: C03 mask(…, 1) / C19), the decorator() closure and wrapper_decorator() argument plumbing.
"""
import z3

from vf import sym, world, harness
from vf.sym import SymVal, SymName, SymRef, SymDict, PyExc, EngineLimit, ValS, NameS, RefS, Opaque
from vf.interp import Interp, Inst, IClass, PartialObj
from vf.harness import VC
from vf.objects import SymObj, Slot, SymCallable, may_raise
from .common import clause

W = 'wrappers.'
I_STATE = {c: clause(W + c + '.__init__', 'post:state', ['C13'], 'P') for c in ('_SimpleWrapped', '_Wrapped')}
I_SIG = {c: clause(W + c + '.__init__', 'post:class_signature_effective', ['C13'], 'P') for c in ('_SimpleWrapped', '_Wrapped')}
C_TRANS = {c: clause(W + c + '.__call__', 'post:transparent', ['C13'], 'P') for c in ('_SimpleWrapped', '_Wrapped')}
G_REBIND = {c: clause(W + c + '.__get__', 'post:rebinds', ['C13'], 'P') for c in ('_SimpleWrapped', '_Wrapped')}
K_FOLD = clause(W + 'Combination.__call__', 'post:fold', ['C13'], 'P')
K_FLAT = clause(W + 'Combination.__init__', 'post:flattened', ['C13'], 'P')
K_SIG = clause(W + 'Combination.get_signature', 'post:merge_of_parts', ['C13', 'C01'], 'P')
F_FWD = clause(W + '_Wrapped._sigtools__forger', 'post:forwards', ['C13', 'C04'], 'P')
L_ORDER = clause(W + 'wrappers', 'post:outermost_first', ['C13'], 'P')
SG = clause('_util.safe_get', 'post:descriptor_protocol', ['C13', 'C04', 'C12'], 'P',
            'safe_get(obj, instance, owner) = type(obj).__get__(obj, instance, owner) whenever the type defines __get__ - for EVERY instance, a '
            'falsy one included (binding a method does not depend on the truth value of the object) - and obj itself otherwise')
FW = 'specifiers._ForgerWrapper'
FW_STATE = clause(FW + '.__init__', 'post:state', ['C04'], 'P',
                  'WHATEVER the wrapped object carries in its __dict__ (it may itself be a _ForgerWrapper): __wrapped__ is the object, _signature_forger is '
                  'the forger given, _transformed is False, and the instance dict holds neither __signature__ nor _sigtools__forger')
FW_FORGER = clause(FW + '._sigtools__forger', 'post:delegates', ['C04'], 'P', '= the declared forger called with obj=<the wrapped object>')
FW_CALL = clause(FW + '.__call__', 'post:transparent', ['C04', 'C13'], 'P')
FW_GET = clause(FW + '.__get__', 'post:rebinds_the_declaration', ['C04'], 'P',
                'descriptor access returns a NEW _ForgerWrapper around safe_get(<transformed wrapped object>, instance, owner) that carries the '
                'DECLARED forger (so the forger later sees the bound object), and leaves the declaration itself unchanged but for the one-off transform')


class Recorder(SymCallable):
    """a user function: records its calls, may raise, returns a fresh symbolic value"""

    def __init__(self, name):
        self.name = name
        self.t = z3.Const(name, RefS)
        SymCallable.__init__(self, name, self._behave)
        self.results = []

    def _behave(self, interp, args, kwpairs):
        v = SymVal(z3.Const('%s_result%d' % (self.name, len(self.results)), ValS))
        self.results.append(v)
        return v

    def _vf_getattr(self, interp, name):
        if name in ('__name__', '__qualname__', '__doc__', '__module__'):
            return Opaque(name)
        raise PyExc(AttributeError, (name,))


def mk_args(ctx, nargs, nkeys):
    args = [SymVal(z3.Const('arg%d' % i, ValS)) for i in range(nargs)]
    keys = [SymName(z3.Const('key%d' % i, NameS)) for i in range(nkeys)]
    vals = [SymVal(z3.Const('kwval%d' % i, ValS)) for i in range(nkeys)]
    if nkeys > 1:
        ctx.add(z3.Distinct(*[k.t for k in keys]))
    return args, keys, vals


def same_call(rec, exp_args, exp_kw):
    a, kw = rec
    return len(a) == len(exp_args) and all(x is y for x, y in zip(a, exp_args)) and len(kw) == len(exp_kw) and \
        all(k1 is k2 and v1 is v2 for (k1, v1), (k2, v2) in zip(kw, exp_kw))


def make_runner(mode, cls='_SimpleWrapped', nargs=1, nkeys=1, nfuncs=2, depth=2, want=None):
    I = Interp()
    world.install_externals(I, {})
    mw = I.module('sigtools.wrappers')
    env = {'interp': I, 'mode': mode, 'cls': cls}

    def new_wrapped(name='wrapped'):
        # a callable whose __dict__ may carry what update_wrapper copies: __signature__, _sigtools__forger, anything else
        o = SymObj(name, 'function', slots={'__signature__': Slot(z3.Bool('inst_%s_signature' % name), False, Opaque('a signature set on the wrapped callable'), None),
                                            '_sigtools__forger': Slot(z3.Bool('inst_%s_forger' % name), False, Opaque('a forger set on the wrapped callable'), None),
                                            'some_attribute': Slot(z3.Bool('inst_%s_other' % name), False, Opaque('unrelated attribute'), None)})
        return o

    def build(ctx, wrapper, wrapped):
        C = mw.ns[cls]
        if cls == '_SimpleWrapped':
            return I.instantiate(C, [wrapper, wrapped], [])
        deco = I.instantiate(mw.ns['_WrapperDecorator'], [env['f_args'], env['f_kwargs'], wrapper], [])
        env['deco'] = deco
        return I.instantiate(C, [deco, wrapper, wrapped], [])

    def run(ctx, r):
        env['r'] = r
        env['f_args'] = (1,)
        fk = SymDict()
        fk.items_ = [('hide_args', True)]
        env['f_kwargs'] = fk
        wrapper = Recorder('wrapper_function')
        env['wrapper'] = wrapper
        if mode in ('init', 'call', 'forger', 'get'):
            wrapped = new_wrapped()
            env['wrapped'] = wrapped
            try:
                w = build(ctx, wrapper, wrapped)
            except PyExc as e:
                r.outcome, r.exc = 'raise', e
                env['stage'] = 'init'
                return
            env['w'] = w
            if mode == 'init':
                r.outcome, r.value = 'return', w
            elif mode == 'call':
                args, keys, vals = mk_args(ctx, nargs, nkeys)
                env.update(args=args, keys=keys, vals=vals)
                try:
                    r.value = I.call(w, list(args), list(zip(keys, vals)))
                    r.outcome = 'return'
                except PyExc as e:
                    r.outcome, r.exc = 'raise', e
            elif mode == 'forger':
                sp = I.module('sigtools.specifiers')
                rec = env['fwd_calls'] = []

                def fwd(interp_, clo, a, kw):
                    rec.append((list(a), list(kw)))
                    return Opaque('forwards result')
                I.call_hooks['specifiers:forwards'] = fwd
                harness.run_unit(I, I.getattr_(w, '_sigtools__forger'), [Opaque('obj')], [], r)
            else:
                inst, owner = SymRef(z3.Const('instance', RefS), 'instance'), Opaque('owner')
                bound = SymObj('bound_inner', 'method')
                env.update(inst=inst, owner=owner, bound=bound)
                wrapped.defaults['__get__'] = None

                def sg(interp_, clo, a, kw):
                    env['safe_get_args'] = list(a)
                    return bound
                I.call_hooks['_util:safe_get'] = sg
                harness.run_unit(I, I.getattr_(w, '__get__'), [inst, owner], [], r)
        elif mode == 'forger_wrapper':
            spm = I.module('sigtools.specifiers')
            C = spm.ns['_ForgerWrapper']
            inner_forger = Opaque('the forger of an earlier declaration')
            obj = SymObj('declared_on', 'function', slots={
                '__signature__': Slot(z3.Bool('inst_obj_signature'), False, Opaque('a signature'), None),
                '_sigtools__forger': Slot(z3.Bool('inst_obj_forger'), False, Opaque('a forger attribute'), None),
                '_signature_forger': Slot(z3.Bool('obj_is_itself_a_forger_wrapper'), False, inner_forger, None),
                '_transformed': Slot(z3.Bool('obj_is_itself_a_forger_wrapper'), False, True, None),
                '__wrapped__': Slot(z3.Bool('inst_obj_wrapped'), False, Opaque('what obj wraps'), None)})
            forger = Recorder('declared_forger')
            env.update(obj=obj, forger=forger)
            try:
                w = I.instantiate(C, [obj, forger], [])
            except PyExc as e:
                r.outcome, r.exc = 'raise', e
                env['stage'] = 'init'
                return
            env['w'] = w
            args, keys, vals = mk_args(ctx, nargs, nkeys)
            env.update(args=args, keys=keys, vals=vals)
            calls = env['inner_calls'] = []
            obj.defaults['__call__'] = None

            class CallableObj:
                pass
            env['state_after_init'] = dict(w._d)
            try:
                env['forged'] = I.call(I.getattr_(w, '_sigtools__forger'), [Opaque('whatever object the protocol passes')], [])
                r.outcome, r.value = 'return', w
            except PyExc as e:
                r.outcome, r.exc = 'raise', e
            # ---- descriptor access: cls.attr / instance.attr on the declaration
            transformed = SymObj('transformed_obj', 'function', slots={
                '__wrapped__': Slot(z3.Bool('inst_tr_wrapped'), False, Opaque('what the transformed object wraps'), None)})
            bound = SymObj('bound_obj', 'method', slots={
                '__signature__': Slot(z3.Bool('inst_bound_signature'), False, Opaque('a signature'), None),
                '_sigtools__forger': Slot(z3.Bool('inst_bound_forger'), False, Opaque('a forger attribute'), None),
                '__wrapped__': Slot(z3.Bool('inst_bound_wrapped'), False, Opaque('what bound wraps'), None)})
            inst, owner = SymRef(z3.Const('instance', RefS), 'instance'), Opaque('owner')
            env.update(transformed=transformed, bound=bound, get_inst=inst, get_owner=owner, tr_calls=[], sg_calls=[])

            def tr(interp_, clo, a, kw):
                env['tr_calls'].append(list(a))
                return transformed

            def sg(interp_, clo, a, kw):
                env['sg_calls'].append(list(a))
                return bound
            I.call_hooks['specifiers:_transform'] = tr
            I.call_hooks['_util:safe_get'] = sg
            was_transformed = w._d.get('_transformed')
            env['was_transformed'] = was_transformed
            try:
                env['got'] = ('return', I.call(I.getattr_(w, '__get__'), [inst, owner], []))
            except PyExc as e:
                env['got'] = ('raise', e)
            finally:
                I.call_hooks.pop('specifiers:_transform', None)
                I.call_hooks.pop('_util:safe_get', None)
        elif mode == 'combination':
            fs = [Recorder('f%d' % i) for i in range(nfuncs)]
            env['fs'] = fs
            sp = I.module('sigtools.specifiers')
            I.call_hooks['specifiers:set_signature_forger'] = lambda i_, c, a, k: a[0]
            inner = I.instantiate(mw.ns['Combination'], fs[1:], []) if nfuncs > 2 else None
            comb = I.instantiate(mw.ns['Combination'], ([fs[0], inner] if inner is not None else fs), [])
            env['comb'] = comb
            first = SymVal(z3.Const('first_arg', ValS))
            args, keys, vals = mk_args(ctx, nargs, nkeys)
            env.update(first=first, args=args, keys=keys, vals=vals)
            try:
                r.value = I.call(comb, [first] + list(args), list(zip(keys, vals)))
                r.outcome = 'return'
            except PyExc as e:
                r.outcome, r.exc = 'raise', e
        elif mode == 'combination_sig':
            fs = [Recorder('f%d' % i) for i in range(nfuncs)]
            env['fs'] = fs
            I.call_hooks['specifiers:set_signature_forger'] = lambda i_, c, a, k: a[0]
            comb = I.instantiate(mw.ns['Combination'], fs, [])
            env['comb'] = comb
            own, parts = Opaque('own signature'), {}
            env['own'] = own

            def plain(interp_, clo, a, kw):
                env['plain_of'] = a[0]
                return own
            I.call_hooks['_signatures:signature'] = plain

            def forged(interp_, clo, a, kw):
                parts[id(a[0])] = Opaque('signature of %s' % getattr(a[0], 'name', '?'))
                env.setdefault('forged_order', []).append(a[0])
                return parts[id(a[0])]
            I.call_hooks['_specifiers:forged_signature'] = forged
            env['parts'] = parts

            def merge(interp_, clo, a, kw):
                env['merge_args'] = list(a)
                return Opaque('merged')
            I.call_hooks['_signatures:merge'] = merge
            harness.run_unit(I, I.getattr_(comb, 'get_signature'), [Opaque('obj')], [], r)
        elif mode == 'safe_get':
            um = I.module('sigtools._util')
            has_get = ctx.decide(z3.Bool('type_defines___get__'))
            calls = env['get_calls'] = []
            bound = Opaque('what __get__ returns')

            def getter(*a):
                calls.append(a)
                return bound

            class TypeModel:
                def _vf_getattr(self, interp_, name):
                    if name == '__get__' and has_get:
                        return getter
                    raise PyExc(AttributeError, (name,))

            class Obj(SymObj):
                def _vf_type(self, interp_):
                    return TypeModel()
            obj = Obj('descriptor_or_not', 'function')
            on_class = ctx.decide(z3.Bool('looked_up_on_the_class'))
            inst = None
            if not on_class:
                inst = SymObj('instance', 'instance')
                inst.truthy = z3.Bool('instance_is_truthy')
            owner = Opaque('owner')
            env.update(obj=obj, inst=inst, owner=owner, bound=bound, has_get=has_get)
            harness.run_unit(I, um.ns['safe_get'], [obj, inst, owner], [], r)
        elif mode == 'wrappers':
            # a chain of ``depth`` wrapper objects around a plain function, each wrapped by build(); then wrappers.wrappers(outer)
            ws = [Recorder('wrapper%d' % i) for i in range(depth)]
            # the same decorator may be applied more than once in a stack
            for i in range(1, depth):
                if ctx.decide(z3.Bool('layer_%d_applies_the_decorator_of_layer_0_again' % i)):
                    ws[i] = ws[0]
            env['ws'] = ws
            obj = new_wrapped('innermost')
            for i in reversed(range(depth)):
                obj = build(ctx, ws[i], obj)
            try:
                r.value = list(I.call(mw.ns['wrappers'], [obj], []))
                r.outcome = 'return'
            except PyExc as e:
                r.outcome, r.exc = 'raise', e
        else:
            raise EngineLimit('mode %s' % mode)
    return run, env


def vcs(env, want):
    r, I, mode, cls = env['r'], env['interp'], env['mode'], env['cls']
    out = []

    def on(c):
        return want is None or any(p in want for p in c.props)
    wrapper = env.get('wrapper')
    if mode in ('init', 'call', 'forger', 'get') and env.get('stage') == 'init' and r.outcome == 'raise':
        out.append(VC(I_STATE[cls].full + ':no_exception:' + r.exc.typname, [], z3.BoolVal(False), I_STATE[cls].props))
        return out
    if mode == 'init':
        w, wrapped = env['w'], env['wrapped']
        d = w._d
        if on(I_STATE[cls]):
            f = d.get('func')
            ok = isinstance(f, PartialObj) and f.func is wrapper and list(f.args) == [wrapped] and not f.keywords.items_ and \
                d.get('__wrapped__') is wrapped and isinstance(d.get('_sigtools__wrappers'), tuple) and len(d['_sigtools__wrappers']) == 1 and d['_sigtools__wrappers'][0] is wrapper
            out.append(VC(I_STATE[cls].full, [], z3.BoolVal(bool(ok)), I_STATE[cls].props))
        if on(I_SIG[cls]):
            out.append(VC(I_SIG[cls].full + ':__signature__', [], z3.BoolVal('__signature__' not in d), I_SIG[cls].props))
            out.append(VC(I_SIG[cls].full + ':_sigtools__forger', [], z3.BoolVal('_sigtools__forger' not in d), I_SIG[cls].props))
            found, v, owner = w._cls.lookup('__signature__')
            out.append(VC(I_SIG[cls].full + ':class_level_as_forged', [], z3.BoolVal(bool(found) and isinstance(v, Inst) and v._cls.name == '_AsForged'), I_SIG[cls].props))
    elif mode == 'call':
        c = C_TRANS[cls]
        if on(c):
            args, keys, vals = env['args'], env['keys'], env['vals']
            exp_args = [env['wrapped']] + list(args)
            exp_kw = list(zip(keys, vals))
            ok = len(wrapper.calls) == 1 and same_call(wrapper.calls[0], exp_args, exp_kw)
            out.append(VC(c.full + ':calls_wrapper_once_with_the_arguments', [], z3.BoolVal(bool(ok)), c.props))
            if r.outcome == 'return':
                out.append(VC(c.full + ':returns_its_result', [], z3.BoolVal(len(wrapper.results) == 1 and r.value is wrapper.results[0]), c.props))
            else:
                raised = [e for e in r.ctx.events if e[0] == 'external-raise' and e[1] == wrapper.origin]
                out.append(VC(c.full + ':propagates_its_exception', [], z3.BoolVal(bool(raised) and r.exc is raised[0][2]), c.props))
    elif mode == 'forger':
        if on(F_FWD):
            w = env['w']
            rec = env['fwd_calls']
            ok = r.outcome == 'return' and len(rec) == 1
            if ok:
                a, kw = rec[0]
                ok = len(a) == 3 and a[0] is w._d['func'] and a[1] is env['wrapped'] and a[2] == 1 and [(k, v) for k, v in kw] == [('hide_args', True)]
            out.append(VC(F_FWD.full, [], z3.BoolVal(bool(ok)), F_FWD.props))
    elif mode == 'get':
        c = G_REBIND[cls]
        if on(c):
            ok = r.outcome == 'return' and isinstance(r.value, Inst) and r.value._cls is env['w']._cls and r.value is not env['w']
            if ok:
                d = r.value._d
                sga = env.get('safe_get_args')
                ok = d.get('__wrapped__') is env['bound'] and d.get('wrapper') is wrapper and sga is not None and \
                    sga[0] is env['wrapped'] and sga[1] is env['inst'] and sga[2] is env['owner']
            out.append(VC(c.full, [], z3.BoolVal(bool(ok)), c.props))
    elif mode == 'forger_wrapper':
        if env.get('stage') == 'init':
            out.append(VC(FW_STATE.full + ':no_exception:' + r.exc.typname, [], z3.BoolVal(False), FW_STATE.props))
            return out
        d = env['state_after_init']
        if on(FW_STATE):
            ok = d.get('__wrapped__') is env['obj'] and d.get('_signature_forger') is env['forger'] and d.get('_transformed') is False
            out.append(VC(FW_STATE.full, [], z3.BoolVal(bool(ok)), FW_STATE.props))
            out.append(VC(FW_STATE.full + ':class_signature_effective', [], z3.BoolVal('__signature__' not in d and '_sigtools__forger' not in d), FW_STATE.props))
        if on(FW_FORGER):
            f = env['forger']
            raised = [e for e in r.ctx.events if e[0] == 'external-raise' and e[1] == f.origin]
            ok = len(f.calls) == 1 and f.calls[0][0] == [] and len(f.calls[0][1]) == 1 and f.calls[0][1][0][0] == 'obj' and f.calls[0][1][0][1] is env['obj']
            if r.outcome == 'return':
                ok = ok and len(f.results) == 1 and env.get('forged') is f.results[0]
            else:
                ok = ok and bool(raised) and r.exc is raised[0][2]
            out.append(VC(FW_FORGER.full, [], z3.BoolVal(bool(ok)), FW_FORGER.props))
        if on(FW_GET) and 'got' in env:
            oc, v = env['got']
            w = env['w']
            ok = oc == 'return' and isinstance(v, Inst) and v._cls is w._cls and v is not w
            if ok:
                ok = (v._d.get('__wrapped__') is env['bound'] and v._d.get('_signature_forger') is env['forger'] and
                      w._d.get('_signature_forger') is env['forger'] and w._d.get('_transformed') is True and
                      len(env['tr_calls']) == (0 if env['was_transformed'] else 1) and
                      len(env['sg_calls']) == 1 and env['sg_calls'][0][1] is env['get_inst'] and env['sg_calls'][0][2] is env['get_owner'] and
                      env['sg_calls'][0][0] is w._d.get('__wrapped__') and
                      w._d.get('__wrapped__') is (env['obj'] if env['was_transformed'] else env['transformed']))
            out.append(VC(FW_GET.full, [], z3.BoolVal(bool(ok)), FW_GET.props))
    elif mode == 'combination':
        fs = env['fs']
        if on(K_FLAT):
            out.append(VC(K_FLAT.full, [], z3.BoolVal(list(env['comb']._d['functions']) == fs and all(a is b for a, b in zip(env['comb']._d['functions'], fs))), K_FLAT.props))
        if on(K_FOLD):
            args, kw = env['args'], list(zip(env['keys'], env['vals']))
            ok = True
            cur = env['first']
            called = 0
            for f in fs:
                if not f.calls:
                    break
                called += 1
                ok = ok and len(f.calls) == 1 and same_call(f.calls[0], [cur] + list(args), kw)
                if not f.results:
                    break       # it raised
                cur = f.results[0]
            raised = [e for e in r.ctx.events if e[0] == 'external-raise']
            if r.outcome == 'return':
                ok = ok and called == len(fs) and r.value is cur and not raised
            else:
                ok = ok and bool(raised) and r.exc is raised[0][2] and all(not g.calls for g in fs[called:])
            out.append(VC(K_FOLD.full, [], z3.BoolVal(bool(ok)), K_FOLD.props))
    elif mode == 'combination_sig':
        if on(K_SIG):
            ma_ = env.get('merge_args')
            fs = env['fs']
            ok = r.outcome == 'return' and ma_ is not None and len(ma_) == 1 + len(fs) and ma_[0] is env['own'] and env.get('plain_of') is env['comb'] and \
                all(ma_[1 + i] is env['parts'].get(id(f)) for i, f in enumerate(fs))
            out.append(VC(K_SIG.full, [], z3.BoolVal(bool(ok)), K_SIG.props))
    elif mode == 'safe_get':
        if on(SG):
            if r.outcome == 'raise':
                # (only the truth value of the instance - user code - can raise here, and the real function never asks for it)
                out.append(VC(SG.full + ':no_exception:' + r.exc.typname, [], z3.BoolVal(False), SG.props))
            elif env['has_get']:
                c = env['get_calls']
                ok = r.value is env['bound'] and len(c) == 1 and c[0][0] is env['obj'] and c[0][1] is env['inst'] and c[0][2] is env['owner']
                out.append(VC(SG.full, [], z3.BoolVal(bool(ok)), SG.props))
            else:
                out.append(VC(SG.full + ':plain_object_returned', [], z3.BoolVal(r.value is env['obj'] and not env['get_calls']), SG.props))
    elif mode == 'wrappers':
        if on(L_ORDER):
            ok = r.outcome == 'return' and len(r.value) == len(env['ws']) and all(a is b for a, b in zip(r.value, env['ws']))
            out.append(VC(L_ORDER.full, [], z3.BoolVal(bool(ok)), L_ORDER.props))
    return out


def replay(env, vc, model):
    """native witness for the constructor clauses: a function carrying __signature__ but no forger, decorated"""
    if env['mode'] != 'init':
        return dict(status='no-replay', op='wrappers:' + env['mode'])
    import inspect
    from vf.concrete import real_sigtools
    real_sigtools()
    from sigtools import wrappers, specifiers
    wrapped = env['wrapped']
    has_sig = z3.is_true(model.eval(wrapped.slots['__signature__'].inst if not isinstance(wrapped.slots['__signature__'].inst, bool) else z3.BoolVal(False), model_completion=True)) \
        if wrapped.entry is None else None
    has = {k: z3.is_true(model.eval(z3.Bool('inst_wrapped_%s' % n), model_completion=True)) for k, n in (('__signature__', 'signature'), ('_sigtools__forger', 'forger'))}

    def deco(func, a, b, *args, **kwargs):
        return func(*args, **kwargs)

    def f(x, y):
        return x, y
    if has['__signature__']:
        f.__signature__ = inspect.signature(f)
    if has['_sigtools__forger']:
        f._sigtools__forger = lambda obj: None
    bad = []
    if env['cls'] == '_SimpleWrapped':
        w = wrappers.decorator(deco)(f)
    else:
        w = wrappers.wrapper_decorator(1)(deco)(f) if False else wrappers._Wrapped(wrappers._WrapperDecorator((0,), {}, deco), deco, f)
    leaked = [k for k in ('__signature__', '_sigtools__forger') if k in vars(w)]
    if leaked:
        bad.append(('post:class_signature_effective', 'instance dict of the wrapper still holds %r copied from the wrapped callable; inspect.signature(wrapper) = %s although '
                    'the wrapper function takes (func, a, b, *args, **kwargs)' % (leaked, inspect.signature(w))))
    key = ':'.join(vc.name.split('/', 1)[1].split(':')[:2])
    hit = [b for b in bad if b[0] == key]
    return dict(status='reproduced' if hit else ('other-violation' if bad else 'not-reproduced'), op='wrappers:init', wrapped_carries=has,
                violated=[list(b) for b in (hit or bad)])


crosscheck = None
