"""Witness predicates of the known findings (known_findings.json refers to them by name).
Each takes the failure record (obligation, task, replay) and says whether the counterexample is THE listed
call site / aliasing pattern; any other violation of the same property is still reported."""


def two_inputs_share_callable(rec):
    sc = rec.get('replay', {}).get('same_callable')
    if sc:
        return any(sc[i][j] for i in range(len(sc)) for j in range(len(sc)) if i != j)
    # unreplayed duplicates of an already replayed failure of the same clause/task carry no record
    return rec.get('replay', {}).get('status') == 'replay-skipped'


def function_carries_a_signature_left_by_annotate(rec):
    return bool(rec.get('task', {}).get('annotated'))


def three_or_more_inputs(rec):
    t = rec.get('task', {})
    shapes = t.get('shapes_') or t.get('shapes') or []
    return len(shapes) >= 3


def bound_keyword_named_like_star_parameter(rec):
    rp = rec.get('replay', {})
    if rp.get('status') == 'replay-skipped':
        return True
    return any(k in (rp.get('star_names') or []) for k in (rp.get('keywords') or {}))


def cyclic_forwarding_graph(rec):
    rp = rec.get('replay', {})
    return 'recursion' in str(rp.get('op', '')) or rp.get('status') == 'replay-skipped'
