"""Contracts of sigtools._signatures.mask / _mask (C03, and the C08/C10/C11/C15/C16 clauses on its results).

 _signatures.mask
   post:exact              C03  no hide flag, names duplicate free and not positional-only: for every non-colliding call c
                                disjoint from names: accepts(result, c) <=> accepts(sig, (n + c.n, c.S u names))
   raises:only_if_impossible C03 ValueError (no hide flag) => no call at all makes sig accept (n + c.n, c.S u names)
   post:hide_only_removes  C03  every result parameter is a parameter of sig with the same kind or a more restrictive
                                one; nothing positional is left under hide_args, nothing keyword-passable under
                                hide_kwargs, the star parameter is gone under hide_var*
   post:hide_sound         C03  weak reading: every call the result accepts is accepted by sig for SOME choice of the
                                hidden arguments (explicit witness)
   raises:only_ValueError  C15  ; post:wellformed C15
   post:meta_*             C10  defaults/annotations untouched, kind only restricted (pok -> kwo), order kept
   post:ua_follows         C11
   post:sources_*          C08  one entry per parameter, subset of the input's, depths unchanged
   frame:*                 C16
 relational (two or three runs on one path condition):
   law:order_independent   C03  names permuted => same parameters and provenance
   law:mask_zero           C03  mask(sig, 0) is sig (parameters, return annotation, provenance)
   law:mask_mask           C03  mask(mask(sig, n), m) = mask(sig, n + m)
"""
import itertools

import z3

from vf import sym, spec, harness
from vf.sym import MV, SymName, SymRef, SymInt, SymBool, SymDict, NONEVAL, PyExc, EngineLimit, NameS
from vf.spec import Z3Ops, P, View, CallShape, PO, POK, VP, KWO, VK
from vf.interp import Interp, Inst, IClass
from vf.harness import VC, mk_sig, mk_call, sig_view, pview, run_unit
from .common import FRAME_PROPS, clause, name_term, ua_denotes, stands_of, ua_follows_goal, ua_return_goal
from .merge import exc_is, src_entries, key_eq, sym_sig_data, real_sig_data

U = '_signatures.mask'
C_EXACT = clause(U, 'post:exact', ['C03'], 'B')
C_RAISE = clause(U, 'raises:only_if_impossible', ['C03'], 'B')
C_HIDE_REM = clause(U, 'post:hide_only_removes', ['C03'], 'B')
C_HIDE_SOUND = clause(U, 'post:hide_sound', ['C03'], 'B')
C_ONLY_VE = clause(U, 'raises:only_ValueError', ['C15'], 'B')
C_WF = clause(U, 'post:wellformed', ['C15'], 'B')
C_META = clause(U, 'post:meta_unchanged_but_kind', ['C10'], 'B')
C_UA = clause(U, 'post:ua_follows', ['C11'], 'B')
C_SRC = clause(U, 'post:sources_wf', ['C08'], 'B')
C_DEPTHS = clause(U, 'post:depths_unchanged', ['C08'], 'B')
C_FRAME = clause(U, 'frame:inputs_unchanged', FRAME_PROPS, 'B')
C_FRESH = clause(U, 'frame:fresh_sources', FRAME_PROPS, 'B')
L_ORDER = clause(U, 'law:order_independent', ['C03'], 'B')
L_ZERO = clause(U, 'law:mask_zero', ['C03', 'C09'], 'B')
L_MM = clause(U, 'law:mask_mask', ['C03'], 'B')


def flag_value(ctx, f):
    """value of a (decided) symbolic flag on this path"""
    if isinstance(f, bool):
        return f
    return ctx.decide(f.t)


def same_params_term(a_list, b_list):
    """z3 condition: two parameter lists carry the same data position by position (None if shapes differ)"""
    if len(a_list) != len(b_list):
        return None
    cs = []
    for p, q in zip(a_list, b_list):
        if p.kind != q.kind:
            return None
        cs.append(Z3Ops.eq(name_term(p), name_term(q)))
        for k in ('_default', '_annotation'):
            x, y = p._d[k], q._d[k]
            cs.append(x.has == y.has)
            cs.append(z3.Implies(x.has, x.val == y.val))
    return z3.And(*cs) if cs else z3.BoolVal(True)


def same_sources_term(a, b):
    """two provenance maps are equal (same keys, same lists, same depths) - None when the spines differ"""
    if not (isinstance(a, SymDict) and isinstance(b, SymDict)):
        return None
    ea, da = src_entries(a)
    eb, db = src_entries(b)
    if len(ea) != len(eb):
        return None
    cs = []
    for (k, v) in ea:
        # find the entry of b with the same key (keys are decided along the path: compare syntactically first)
        alts = []
        for (k2, v2) in eb:
            if len(v) != len(v2):
                continue
            alts.append(z3.And(key_eq(k, k2.t if isinstance(k2, SymName) else k2), *[x.t == y.t for x, y in zip(v, v2)]))
        if not alts:
            return None
        cs.append(z3.Or(*alts))
    if (da is None) != (db is None):
        return None
    if da is not None:
        if len(da.items_) != len(db.items_):
            return None
        for f, d in da.items_:
            cs.append(z3.Or(*[z3.And(f.t == f2.t, sym.zint(d) == sym.zint(d2)) for f2, d2 in db.items_]))
    return z3.And(*cs) if cs else z3.BoolVal(True)


def mask_vcs(env, want):
    r = env['r']
    info = env['info']
    I = env['interp']
    ctx = r.ctx
    mode = env['mode']
    out = []

    def on(c):
        if env.get('bare') and c in (C_SRC, C_DEPTHS):
            return False      # an input without provenance: the provenance clauses have nothing to say
        return want is None or any(p in want for p in c.props)

    if mode in ('order', 'zero', 'maskmask'):
        return law_vcs(env, on)
    m = I.module('sigtools._signatures')
    EmptyAnn = m.ns['EmptyAnnotation']
    UP = m.ns['UpgradedParameter']
    n = env['n']
    names = env['names']
    flags = env['flags']
    iv = sig_view(info.sig)
    name_terms = [x.t for x in names]
    call, ccons = mk_call(info.names + name_terms)
    env['call'] = call
    if on(C_FRAME):
        out.append(VC(C_FRAME.full, [], z3.BoolVal(not ctx.heap_writes), C_FRAME.props))
    fl = env['flag_values']
    nohide = not any(fl.values())
    names_distinct = z3.Distinct(*name_terms) if len(name_terms) > 1 else z3.BoolVal(True)
    po_names = [p.name for p in iv.params if p.kind == PO]
    names_not_po = z3.And(*[t != q for t in name_terms for q in po_names]) if po_names and name_terms else z3.BoolVal(True)
    disjoint = z3.And(*[z3.Implies(b, z3.And(*[Z3Ops.Not(Z3Ops.eq(t, x)) for x in name_terms])) for b, t in call.cands]) \
        if name_terms else z3.BoolVal(True)
    residual = call.plus(n.t if isinstance(n, SymInt) else n, name_terms)
    if r.outcome == 'raise':
        e = r.exc
        if on(C_ONLY_VE):
            out.append(VC(C_ONLY_VE.full + ':type', [], z3.BoolVal(exc_is(I, e, 'ValueError')), C_ONLY_VE.props))
        if on(C_RAISE) and nohide and exc_is(I, e, 'ValueError'):
            out.append(VC(C_RAISE.full, ccons + [names_distinct, names_not_po, disjoint, spec.accepts(Z3Ops, iv, residual)],
                          z3.BoolVal(False), C_RAISE.props))
        return out
    res = r.value
    if not (isinstance(res, Inst) and '_parameters' in res._d):
        out.append(VC(C_WF.full + ':is_signature', [], z3.BoolVal(False), C_WF.props))
        return out
    rparams = res._d['_parameters'].plist
    rv = sig_view(res)
    in_ids = {id(p): i for i, p in enumerate(info.params)}
    if on(C_EXACT) and nohide:
        nonc = spec.noncolliding(Z3Ops, rv, [iv], call)
        out.append(VC(C_EXACT.full, ccons + [names_distinct, names_not_po, disjoint, nonc],
                      spec.accepts(Z3Ops, rv, call) == spec.accepts(Z3Ops, iv, residual), C_EXACT.props))
    if on(C_WF):
        ok = all(isinstance(p, Inst) and UP in p._cls.mro for p in rparams)
        src = res._d.get('sources')
        ok = ok and isinstance(src, SymDict) and src.get('+depths') is not None
        out.append(VC(C_WF.full + ':upgraded_with_depths', [], z3.BoolVal(bool(ok)), C_WF.props))
        out.append(VC(C_WF.full + ':valid', [], spec.wf(Z3Ops, rv), C_WF.props))
    origin_ok = all(id(p._d.get('_vf_origin')) in in_ids for p in rparams)
    if on(C_HIDE_REM) or on(C_META):
        if not origin_ok:
            out.append(VC(C_HIDE_REM.full + ':every_parameter_from_sig', [], z3.BoolVal(False), C_HIDE_REM.props + C_META.props))
        else:
            idx = [in_ids[id(p._d['_vf_origin'])] for p in rparams]
            if on(C_HIDE_REM):
                ok = True
                for p in rparams:
                    if fl['hide_args'] and p.kind in (PO, POK, VP):
                        ok = False
                    if fl['hide_kwargs'] and p.kind in (POK, KWO, VK):
                        ok = False
                    if fl['hide_varargs'] and p.kind == VP:
                        ok = False
                    if fl['hide_varkwargs'] and p.kind == VK:
                        ok = False
                out.append(VC(C_HIDE_REM.full, [], z3.BoolVal(ok and len(set(idx)) == len(idx)), C_HIDE_REM.props))
            if on(C_META):
                for p in rparams:
                    o = p._d['_vf_origin']
                    tag = ':%s' % p._d.get('_vf_tag', '?')
                    kind_ok = p.kind == o.kind or (o.kind == POK and p.kind == KWO)
                    same = z3.And(Z3Ops.eq(name_term(p), name_term(o)),
                                  p._d['_default'].has == o._d['_default'].has,
                                  z3.Implies(o._d['_default'].has, p._d['_default'].val == o._d['_default'].val),
                                  p._d['_annotation'].has == o._d['_annotation'].has,
                                  z3.Implies(o._d['_annotation'].has, p._d['_annotation'].val == o._d['_annotation'].val))
                    out.append(VC(C_META.full + tag, [], z3.And(z3.BoolVal(kind_ok), same), C_META.props))
                pos_idx = [in_ids[id(p._d['_vf_origin'])] for p in rparams if p.kind in (PO, POK)]
                out.append(VC(C_META.full + ':order', [], z3.BoolVal(pos_idx == sorted(pos_idx)), C_META.props))
    if on(C_UA):
        for p in rparams:
            o = p._d.get('_vf_origin')
            cands = list({id(x): x for x in ([o] if o is not None else []) + stands_of(p)}.values())
            out.append(VC(C_UA.full + ':%s' % p._d.get('_vf_tag', '?'), [], ua_follows_goal(p, EmptyAnn, cands=cands), C_UA.props))
        out.append(VC(C_UA.full + ':return', [], ua_return_goal(res, info.sig, EmptyAnn), C_UA.props))
    if on(C_HIDE_SOUND) and not nohide and origin_ok:
        # witness call for sig (weak reading, see DESIGN 5/C03): hidden positional category -> pass exactly the
        # required positionals; hidden keyword category -> pass exactly the required keyword parameters that the
        # positionals do not fill
        req_pos = sum([z3.If(p.has, 0, 1) for p in iv.pos]) if iv.pos else z3.IntVal(0)
        n_t = n.t if isinstance(n, SymInt) else z3.IntVal(n)
        n_w = req_pos if fl['hide_args'] else n_t + call.n
        if fl['hide_kwargs']:
            cands = []
            for i, p in enumerate(iv.pos):
                if p.kind == POK:
                    cands.append((z3.And(z3.Not(p.has), z3.Not(z3.IntVal(i) < n_w)), p.name))
            for p in iv.kwo:
                cands.append((z3.Not(p.has), p.name))
            w = CallShape(Z3Ops, n_w, cands)
        else:
            w = CallShape(Z3Ops, n_w, call.cands + [(Z3Ops.true, t) for t in name_terms])
        nonc = spec.noncolliding(Z3Ops, rv, [iv], call)
        out.append(VC(C_HIDE_SOUND.full, ccons + [names_distinct, names_not_po, disjoint, nonc, spec.accepts(Z3Ops, rv, call)],
                      spec.accepts(Z3Ops, iv, w), C_HIDE_SOUND.props))
    src = res._d.get('sources')
    if isinstance(src, SymDict) and (on(C_SRC) or on(C_DEPTHS)):
        ent, dep = src_entries(src)
        f0 = info.funcs[0]
        if on(C_SRC):
            for p in rparams:
                out.append(VC(C_SRC.full + ':entry_for:%s' % p._d.get('_vf_tag', '?'), [],
                              z3.Or(*[key_eq(k, name_term(p)) for k, _ in ent]), C_SRC.props))
            for k, lst in ent:
                tag = ':%s' % (k,)
                out.append(VC(C_SRC.full + ':key_is_parameter' + tag, [], z3.Or(*[key_eq(k, name_term(p)) for p in rparams]), C_SRC.props))
                lst = list(lst)
                out.append(VC(C_SRC.full + ':nonempty' + tag, [], z3.BoolVal(len(lst) > 0), C_SRC.props))
                out.append(VC(C_SRC.full + ':from_input' + tag, [], z3.And(*[f.t == f0.t for f in lst]) if lst else z3.BoolVal(True), C_SRC.props))
                if len(lst) > 1:
                    out.append(VC(C_SRC.full + ':duplicate_free' + tag, [], z3.Distinct(*[f.t for f in lst]), C_SRC.props))
        if on(C_DEPTHS):
            ok = isinstance(dep, SymDict) and len(dep.items_) == 1
            goal = z3.And(dep.items_[0][0].t == f0.t, sym.zint(dep.items_[0][1]) == info.depth_terms[0]) if ok else z3.BoolVal(False)
            out.append(VC(C_DEPTHS.full, [], goal, C_DEPTHS.props))
    if on(C_FRESH):
        ok = True
        if isinstance(src, SymDict):
            if sym.input_label(src):
                ok = False
            for k, v in src.items_:
                if sym.input_label(v):
                    ok = False
        out.append(VC(C_FRESH.full, [], z3.BoolVal(ok), C_FRESH.props))
    return out


def law_vcs(env, on):
    """relational clauses: the runs were performed one after the other on the same path"""
    r = env['r']
    out = []
    a, b = env['runs']
    mode = env['mode']
    c = {'order': L_ORDER, 'zero': L_ZERO, 'maskmask': L_MM}[mode]
    if not on(c):
        return out
    if a[0] != b[0]:
        out.append(VC(c.full + ':same_outcome', [], z3.BoolVal(False), c.props))
        return out
    if a[0] == 'raise':
        out.append(VC(c.full + ':same_outcome', [], z3.BoolVal(True), c.props))
        return out
    pa = a[1]._d['_parameters'].plist
    pb = b[1]._d['_parameters'].plist
    t = same_params_term(pa, pb)
    out.append(VC(c.full + ':parameters', env.get('law_assume', []), t if t is not None else z3.BoolVal(False), c.props))
    s = same_sources_term(a[1]._d.get('sources'), b[1]._d.get('sources'))
    out.append(VC(c.full + ':provenance', env.get('law_assume', []), s if s is not None else z3.BoolVal(False), c.props))
    ra, rb = a[1]._d['_return_annotation'], b[1]._d['_return_annotation']
    out.append(VC(c.full + ':return_annotation', [], z3.And(ra.has == rb.has, z3.Implies(ra.has, ra.val == rb.val)), c.props))
    return out


def make_runner(shape, nnames=1, mode='mask', want=None, hide=True, perm=None, bare=False):
    I = Interp()
    from vf import world as _world
    _world.install_externals(I, {})     # eval(expression, f.__globals__) is the uninterpreted evalin
    m = I.module('sigtools._signatures')
    env = {'interp': I, 'mode': mode}
    mask = m.ns['mask']

    def call_mask(sig, n, names, flags):
        try:
            return ('return', I.call(mask, [sig, n] + list(names), [(k, v) for k, v in flags.items()]))
        except PyExc as e:
            return ('raise', e)

    def run(ctx, r):
        info = mk_sig(I, ctx, 's', shape)
        if bare:
            from vf.harness import strip_provenance
            strip_provenance(info)      # a signature assembled by hand / an upgraded plain inspect.Signature
        env['bare'] = bare
        env['info'] = info
        env['r'] = r
        r.inputs = [info]
        nt = z3.Int('mask_n')
        ctx.add(nt >= 0)
        n = SymInt(nt)
        names = [SymName(z3.Const('mname%d' % i, NameS)) for i in range(nnames)]
        env['n'] = n
        env['names'] = names
        if mode == 'mask':
            flags = {k: (SymBool(z3.Bool(k)) if hide else False) for k in ('hide_args', 'hide_kwargs', 'hide_varargs', 'hide_varkwargs')}
            env['flags'] = flags
            oc = call_mask(info.sig, n, names, flags)
            # flags the path did not look at are split here (inside the run, so the siblings are explored)
            env['flag_values'] = {k: flag_value(ctx, v) for k, v in flags.items()}
        elif mode == 'order':
            # two runs with the names permuted; duplicate-free names
            if len(names) > 1:
                ctx.add(z3.Distinct(*[x.t for x in names]))
            pm = perm or list(reversed(range(nnames)))
            a = call_mask(info.sig, n, names, {})
            b = call_mask(info.sig, n, [names[i] for i in pm], {})
            env['runs'] = (a, b)
            oc = b
        elif mode == 'zero':
            a = call_mask(info.sig, 0, [], {})
            env['runs'] = (a, ('return', info.sig))
            oc = a
        elif mode == 'maskmask':
            mt = z3.Int('mask_m')
            ctx.add(mt >= 0)
            a1 = call_mask(info.sig, n, [], {})
            a = call_mask(a1[1], SymInt(mt), [], {}) if a1[0] == 'return' else a1
            b = call_mask(info.sig, SymInt(nt + mt), [], {})
            env['runs'] = (a, b)
            oc = b
        else:
            raise EngineLimit('mode')
        r.outcome = oc[0]
        if oc[0] == 'return':
            r.value = oc[1]
        else:
            r.exc = oc[1]
    return run, env


vcs = mask_vcs


# --------------------------------------------------------------------------- native side
def _concrete_case(env, conc):
    from vf.concrete import sig_str
    info = env['info']
    sig = conc.build_input(info)
    n = conc.integer(env['n'])
    names = [conc.name(x) for x in env['names']]
    flags = {}
    if env['mode'] == 'mask':
        for k, v in env['flags'].items():
            flags[k] = conc.boolean(v.t) if isinstance(v, SymBool) else bool(v)
    return sig, n, names, flags


def replay(env, vc, model):
    from vf.concrete import Concretizer, sig_str, real_sigtools
    from vf import rt
    real_sigtools()
    from sigtools import _signatures
    conc = Concretizer(model)
    sig, n, names, flags = _concrete_case(env, conc)
    mode = env['mode']
    short = vc.name.split('/', 1)[1]
    key = ':'.join(short.split(':')[:2])
    rec = dict(op='mask', mode=mode, inputs=[sig_str(sig)], specs=[conc.param_specs(env['info'])], n=n, names=names, flags=flags)
    if mode == 'mask':
        before = rt.snapshot_sig(sig)
        oc = rt.run_real(_signatures.mask, sig, n, *names, **flags)
        bad = rt.check_mask(sig, n, names, flags, oc)
        if rt.snapshot_sig(sig) != before:
            bad.append(('frame:inputs_unchanged', 'input snapshot differs'))
        rec['native_outcome'] = sig_str(oc[1]) if oc[0] == 'return' else repr(oc[1])
    else:
        bad = rt.check_mask_laws(sig, n, names, mode, conc.integer(z3.Int('mask_m')) if mode == 'maskmask' else 0)
    hit = [b for b in bad if b[0].startswith(key)]
    rec['status'] = 'reproduced' if hit else ('other-violation' if bad else 'not-reproduced')
    rec['violated'] = [list(b) for b in (hit or bad)[:8]]
    return rec


def crosscheck(env, r):
    from vf.concrete import Concretizer, real_sigtools
    from vf import rt
    if env['mode'] != 'mask':
        return None
    real_sigtools()
    from sigtools import _signatures
    s = r.ctx.solver
    if s.check() != z3.sat:
        return 'path condition not satisfiable at path end'
    conc = Concretizer(s.model())
    sig, n, names, flags = _concrete_case(env, conc)
    fkey = conc.refkey(env['info'].funcs[0])
    oc = rt.run_real(_signatures.mask, sig, n, *names, **flags)
    desc = 'mask(%s, %d, %r, %r)' % (sig, n, names, flags)
    if r.outcome == 'raise':
        if oc[0] != 'raise':
            return 'symbolic raise %s, native returned %s on %s' % (r.exc.typname, oc[1], desc)
        if type(oc[1]).__name__ != r.exc.typname:
            return 'symbolic raise %s, native raise %r on %s' % (r.exc.typname, oc[1], desc)
        return None
    if oc[0] == 'raise':
        return 'symbolic return, native raise %r on %s' % (oc[1], desc)
    a = sym_sig_data(conc, r.value)
    b = real_sig_data(oc[1], lambda f: fkey)
    if a != b:
        return 'results differ on %s: symbolic %r native %r' % (desc, a, b)
    return None
