"""Symbolic values, path context (decision-prefix replay) and association-list containers.

Everything here is used by the AST interpreter (vf/interp.py) that executes the REAL sigtools source.
Symbolic Booleans decide through ``__bool__`` so host ``if``/``and``/``not``/``all`` work unchanged.
"""
import z3

NameS = z3.DeclareSort('Name')      # parameter names
ValS = z3.DeclareSort('Val')        # defaults, annotation objects, argument values
RefS = z3.DeclareSort('Ref')        # callables / identity-carrying external objects

NONEVAL = z3.Const('NoneVal', ValS)  # the value ``None`` when used as a default
EVALIN = z3.Function('evalin', ValS, RefS, ValS)      # value of an annotation expression in a function's globals
EVALIN_AT = z3.Function('evalin_at', ValS, RefS, z3.IntSort(), ValS)      # ... after the globals were rebound (epoch > 0): module globals are mutable
EPOCH = [0]
TRUTHY = z3.Function('truthy', ValS, z3.BoolSort())      # truth value of a default / annotation object


class Infeasible(Exception):
    """path condition became unsatisfiable (should not happen: decide keeps it sat)"""


class EngineLimit(Exception):
    """construct outside the interpreted subset - never mapped to a verdict"""


class EngineError(Exception):
    """internal inconsistency of the engine (exit 3)"""


class Ctx:
    """One path. ``prefix`` is a list of (outcome, forked) pairs recorded by an earlier run; decisions inside
    the prefix are replayed without solver calls, beyond it feasibility is asked and the True branch is taken
    first.  ``trace`` is the full decision trace of this run."""

    def __init__(self, prefix=(), base=(), timeout_ms=10000):
        self.prefix = list(prefix)
        self.trace = []
        self.solver = z3.Solver()
        self.solver.set('timeout', timeout_ms)
        self.base = list(base)
        if self.base:
            self.solver.add(*self.base)
        self.pc = []
        self.n_solver_calls = 0
        self.events = []          # ghost event log (warnings, external calls, ...)
        self.fresh_counter = 0
        self.heap_writes = []     # (object, description) for frame obligations
        self.notes = {}

    def add(self, cond):
        """assume (used when building inputs)"""
        self.solver.add(cond)
        self.base.append(cond)

    def fresh(self, prefix, sort):
        self.fresh_counter += 1
        return z3.Const('%s!%d' % (prefix, self.fresh_counter), sort)

    def _check(self, cond):
        s = self.solver
        s.push()
        s.add(cond)
        self.n_solver_calls += 1
        r = s.check()
        s.pop()
        if r == z3.unknown:
            raise EngineLimit('solver unknown in feasibility check')
        return r == z3.sat

    def decide(self, cond):
        if isinstance(cond, bool):
            return cond
        cond = z3.simplify(cond)
        if z3.is_true(cond):
            return True
        if z3.is_false(cond):
            return False
        i = len(self.trace)
        key = cond.hash()
        if i < len(self.prefix):
            v, forked = self.prefix[i][0], self.prefix[i][1]
            if len(self.prefix[i]) > 2 and self.prefix[i][2] != key:
                # the re-execution does not ask the question the recorded run asked at this point: the decision
                # sequence is not a function of the prefix (state leaked between paths) - nothing can be trusted
                raise EngineError('decision sequence diverged on replay at decision %d: %s' % (i, str(cond)[:200]))
            self.trace.append((v, forked, key))
            if forked:
                c = cond if v else z3.Not(cond)
                self.solver.add(c)
                self.pc.append(c)
            return v
        can_t = self._check(cond)
        can_f = self._check(z3.Not(cond)) if can_t else True
        if can_t and not can_f:
            self.trace.append((True, False, key))
            return True
        if can_f and not can_t:
            self.trace.append((False, False, key))
            return False
        if not can_t and not can_f:
            raise Infeasible()
        self.trace.append((True, True, key))
        self.solver.add(cond)
        self.pc.append(cond)
        return True

    def alternatives(self):
        """prefixes of the unexplored siblings discovered by this run"""
        out = []
        for i in range(len(self.prefix), len(self.trace)):
            v, forked, key = self.trace[i]
            if forked and v:
                out.append(self.trace[:i] + [(False, True, key)])
        return out

    def log(self, kind, *data):
        self.events.append((kind,) + data)


class _Cur:
    ctx = None


def CTX():
    return _Cur.ctx


def set_ctx(c):
    _Cur.ctx = c


# --------------------------------------------------------------------------- symbolic scalars
class SymBool:
    __slots__ = ('t',)

    def __init__(self, t):
        self.t = t

    def __bool__(self):
        return _Cur.ctx.decide(self.t)

    def __repr__(self):
        return 'SymBool(%s)' % self.t


class SymInt:
    __slots__ = ('t',)

    def __init__(self, t):
        self.t = t

    def __bool__(self):
        return _Cur.ctx.decide(self.t != 0)

    def __repr__(self):
        return 'SymInt(%s)' % self.t


class SymName:
    """a parameter name (uninterpreted, equality only)"""
    __slots__ = ('t',)

    def __init__(self, t):
        self.t = t

    def __repr__(self):
        return '<%s>' % self.t

    def __bool__(self):
        return True     # parameter names are non-empty strings


class SymVal:
    """an opaque Python value with ``==`` as a total equivalence (assumption EQ)"""
    __slots__ = ('t',)

    def __init__(self, t):
        self.t = t

    def __repr__(self):
        return 'Val(%s)' % self.t


class SymRef:
    """a callable / external object used as provenance key; hashable, ``==`` is identity of the term"""
    __slots__ = ('t', 'label')

    def __init__(self, t, label=None):
        self.t = t
        self.label = label

    def __repr__(self):
        return 'Ref(%s)' % self.t

    def __bool__(self):
        return True


class Opaque:
    """an opaque string (messages are never reasoned about)"""

    def __init__(self, what='str'):
        self.what = what

    def format(self, *a, **k):
        return Opaque()

    def join(self, it):
        for _ in it:
            pass
        return Opaque()

    def __repr__(self):
        return '<opaque %s>' % self.what

    def __bool__(self):
        return True


class Empty:
    """inspect.Parameter.empty / Signature.empty (one object, as in CPython: Signature.empty is Parameter.empty)"""

    def __repr__(self):
        return 'empty'

    def __bool__(self):
        return True     # it is a class in CPython


EMPTY = Empty()


class MV:
    """maybe-empty value: a default or an annotation. ``has`` z3 Bool, ``val`` z3 Val"""
    __slots__ = ('has', 'val')

    def __init__(self, has, val):
        self.has = has if not isinstance(has, bool) else z3.BoolVal(has)
        self.val = val

    def __repr__(self):
        return 'MV(%s,%s)' % (self.has, self.val)

    def __bool__(self):
        # ``if param.default:`` - absent means the class inspect.Parameter.empty (true); present: the truth value of an arbitrary
        # object, an uninterpreted predicate of the value (None is false)
        c = _Cur.ctx
        if c is None:
            raise EngineLimit('truth value of a default/annotation value outside a path')
        return c.decide(z3.If(self.has, z3.And(self.val != NONEVAL, TRUTHY(self.val)), z3.BoolVal(True)))


def to_mv(x):
    """normalise what the interpreted code passes as default=/annotation="""
    if isinstance(x, MV):
        return x
    if x is EMPTY:
        return MV(False, NONEVAL)
    if x is None:
        return MV(True, NONEVAL)
    if isinstance(x, SymVal):
        return MV(True, x.t)
    raise EngineLimit('unsupported default/annotation value %r' % (x,))


def zint(x):
    if isinstance(x, SymInt):
        return x.t
    if isinstance(x, bool):
        return z3.IntVal(int(x))
    if isinstance(x, int):
        return z3.IntVal(x)
    if isinstance(x, SymBool):
        return z3.If(x.t, 1, 0)
    raise EngineLimit('not an int: %r' % (x,))


def zbool(x):
    if isinstance(x, SymBool):
        return x.t
    if isinstance(x, bool):
        return z3.BoolVal(x)
    raise EngineLimit('not a bool: %r' % (x,))


class PyExc(Exception):
    """an exception of the interpreted program. typ: host exception class or interpreted class; inst: value"""

    def __init__(self, typ, args=(), inst=None):
        Exception.__init__(self, getattr(typ, '__name__', str(typ)))
        self.typ = typ
        self.eargs = tuple(args)
        self.inst = inst
        self.where = None

    @property
    def typname(self):
        return getattr(self.typ, '__name__', None) or getattr(self.typ, 'name', str(self.typ))


# --------------------------------------------------------------------------- equality
def is_symbolic_scalar(x):
    return isinstance(x, (SymBool, SymInt, SymName, SymVal, SymRef, MV))


SELFEQ = z3.Function('selfeq', ValS, z3.BoolSort())    # x == x for a value (False for NaN-like objects)


class _Flags:
    nonreflexive = False     # when set, ASSUMPTION EQ is weakened: == on values need not be reflexive (C14 'x == x' units)


def set_nonreflexive(v):
    _Flags.nonreflexive = bool(v)


def py_eq(a, b):
    """Python ``a == b`` on interpreter values; returns a host bool, forking through the context if needed."""
    if a is b:
        if not _Flags.nonreflexive:
            return True
        # the expression ``x == x`` calls type(x).__eq__: no identity shortcut outside container comparisons
        if isinstance(a, MV):
            return _Cur.ctx.decide(z3.Or(z3.Not(a.has), SELFEQ(a.val)))
        if isinstance(a, SymVal):
            return _Cur.ctx.decide(SELFEQ(a.t))
        m = getattr(a, '_vf_selfeq', None)
        if m is not None:
            return m()
        if hasattr(a, '_vf_eq'):
            r = a._vf_eq(b)
            if r is not NotImplemented:
                return r
        return True
    ta, tb = type(a), type(b)
    if ta is SymName or tb is SymName:
        if ta is SymName and tb is SymName:
            from .spec import Z3Ops
            return _Cur.ctx.decide(Z3Ops.eq(a.t, b.t))
        # ASSUMPTION NAMES: symbolic parameter names differ from every string literal of sigtools
        return False
    if isinstance(a, SymRef) or isinstance(b, SymRef):      # (subclasses: symbolic functions, objects, partials)
        if hasattr(a, '_vf_value_eq'):
            return a._vf_value_eq(b)         # an object whose class defines a value-based __eq__
        if hasattr(b, '_vf_value_eq'):
            return b._vf_value_eq(a)
        if isinstance(a, SymRef) and isinstance(b, SymRef):
            return _Cur.ctx.decide(a.t == b.t)
        return False
    if ta is SymVal or tb is SymVal:
        if ta is SymVal and tb is SymVal:
            if _Flags.nonreflexive:
                return _Cur.ctx.decide(z3.And(a.t == b.t, SELFEQ(a.t)))
            return _Cur.ctx.decide(a.t == b.t)
        if a is None or b is None:
            o = a if ta is SymVal else b
            return _Cur.ctx.decide(o.t == NONEVAL)
        if ta is MV or tb is MV:
            return py_eq(to_mv(a), to_mv(b))
        return False
    if ta is MV or tb is MV:
        if a is EMPTY:
            return _Cur.ctx.decide(z3.Not(b.has))
        if b is EMPTY:
            return _Cur.ctx.decide(z3.Not(a.has))
        if ta is MV and tb is MV:
            return _Cur.ctx.decide(z3.Or(z3.And(z3.Not(a.has), z3.Not(b.has)),
                                         z3.And(a.has, b.has, a.val == b.val)))
        if a is None or b is None:
            o = a if ta is MV else b
            return _Cur.ctx.decide(z3.And(o.has, o.val == NONEVAL))
        return False
    if ta in (SymInt, SymBool) or tb in (SymInt, SymBool):
        if isinstance(a, (SymInt, SymBool, int)) and isinstance(b, (SymInt, SymBool, int)):
            return _Cur.ctx.decide(zint(a) == zint(b))
        return False
    if hasattr(a, '_vf_eq'):
        r = a._vf_eq(b)
        if r is not NotImplemented:
            return r
    if hasattr(b, '_vf_eq'):
        r = b._vf_eq(a)
        if r is not NotImplemented:
            return r
    if isinstance(a, (list, tuple)) and type(a) is type(b):
        if len(a) != len(b):
            return False
        for x, y in zip(a, b):
            if not py_eq(x, y):
                return False
        return True
    if isinstance(a, (str, int, float, bool, type(None), bytes, frozenset)) or \
       isinstance(b, (str, int, float, bool, type(None), bytes, frozenset)):
        try:
            return bool(a == b)
        except Exception:
            return False
    if isinstance(a, SymDict) and isinstance(b, SymDict):
        if len(a) != len(b):
            return False
        for k, v in a.items_:
            i = b._find(k)
            if i < 0 or not py_eq(v, b.items_[i][1]):
                return False
        return True
    return False    # distinct objects without __eq__: identity


def py_is(a, b):
    """Python ``a is b``"""
    if a is b:
        return True
    if isinstance(a, MV) and (b is EMPTY):
        return _Cur.ctx.decide(z3.Not(a.has))
    if isinstance(b, MV) and (a is EMPTY):
        return _Cur.ctx.decide(z3.Not(b.has))
    if isinstance(a, MV) and b is None:
        return _Cur.ctx.decide(z3.And(a.has, a.val == NONEVAL))
    if isinstance(b, MV) and a is None:
        return _Cur.ctx.decide(z3.And(b.has, b.val == NONEVAL))
    if isinstance(a, SymRef) and isinstance(b, SymRef):
        return _Cur.ctx.decide(a.t == b.t)
    if isinstance(a, SymName) and isinstance(b, SymName):
        # identity of equal strings is not guaranteed; sigtools never relies on it
        raise EngineLimit('identity comparison of names')
    return False


# --------------------------------------------------------------------------- containers
class SymDict:
    """insertion-ordered association list standing for dict / OrderedDict; key comparison through py_eq
    (forks on undecided name equality).  ASSUMPTION HASH: keys are hashable with hash consistent with ==."""
    _vf_container = True

    def __init__(self, items=()):
        self.items_ = []
        if isinstance(items, SymDict):
            self.items_ = list(items.items_)
        else:
            for kv in items:
                k, v = kv
                self[k] = v

    def _find(self, k):
        for i, (k2, _) in enumerate(self.items_):
            if py_eq(k, k2):
                return i
        return -1

    def __contains__(self, k):
        return self._find(k) >= 0

    def __getitem__(self, k):
        i = self._find(k)
        if i < 0:
            raise PyExc(KeyError, (k,))
        return self.items_[i][1]

    def __setitem__(self, k, v):
        i = self._find(k)
        note_write(self)
        if i < 0:
            self.items_.append((k, v))
        else:
            self.items_[i] = (self.items_[i][0], v)

    def __delitem__(self, k):
        i = self._find(k)
        if i < 0:
            raise PyExc(KeyError, (k,))
        note_write(self)
        del self.items_[i]

    def get(self, k, d=None):
        i = self._find(k)
        return d if i < 0 else self.items_[i][1]

    def pop(self, k, *d):
        i = self._find(k)
        if i < 0:
            if d:
                return d[0]
            raise PyExc(KeyError, (k,))
        note_write(self)
        return self.items_.pop(i)[1]

    def setdefault(self, k, d=None):
        i = self._find(k)
        if i < 0:
            note_write(self)
            self.items_.append((k, d))
            return d
        return self.items_[i][1]

    def update(self, other=(), **kw):
        if isinstance(other, SymDict):
            it = list(other.items_)
        elif hasattr(other, 'items') and not isinstance(other, (list, tuple)):
            it = list(other.items())
        else:
            it = other
        for kv in it:
            k, v = kv
            self[k] = v
        for k, v in kw.items():
            self[k] = v

    def items(self):
        return list(self.items_)

    def values(self):
        return [v for _, v in self.items_]

    def keys(self):
        return [k for k, _ in self.items_]

    def copy(self):
        return SymDict(self)

    def __iter__(self):
        return iter(self.keys())

    def __len__(self):
        return len(self.items_)

    def __bool__(self):
        return len(self.items_) > 0

    def clear(self):
        note_write(self)
        self.items_.clear()

    def __repr__(self):
        return 'SymDict(%r)' % (self.items_,)


class SymSet:
    _vf_container = True

    def __init__(self, it=()):
        self.d = SymDict()
        for x in it:
            self.add(x)

    def add(self, x):
        self.d[x] = True

    def discard(self, x):
        self.d.pop(x, None)

    def remove(self, x):
        self.d.pop(x)

    def update(self, *its):
        for it in its:
            for x in it:
                self.add(x)

    def copy(self):
        return SymSet(self.d.keys())

    def __contains__(self, x):
        return x in self.d

    def intersection(self, it):
        other = list(it)
        return SymSet(x for x in self.d.keys() if any(py_eq(x, y) for y in other))

    def union(self, it):
        r = self.copy()
        r.update(it)
        return r

    def difference(self, it):
        other = list(it)
        return SymSet(x for x in self.d.keys() if not any(py_eq(x, y) for y in other))

    def __iter__(self):
        return iter(self.d.keys())

    def __len__(self):
        return len(self.d)

    def __bool__(self):
        return len(self.d) > 0

    def clear(self):
        self.d.clear()

    def __repr__(self):
        return 'SymSet(%r)' % (self.d.keys(),)


# --------------------------------------------------------------------------- frame (ownership) tracking
_INPUT_OBJS = {}


def mark_input(obj, label):
    """register a heap object as reachable from an input (for ``modifies=[]`` obligations)"""
    _INPUT_OBJS[id(obj)] = (obj, label)


def clear_inputs():
    _INPUT_OBJS.clear()


def note_write(obj):
    e = _INPUT_OBJS.get(id(obj))
    if e is not None and e[0] is obj and _Cur.ctx is not None:
        _Cur.ctx.heap_writes.append(e[1])


def input_label(obj):
    e = _INPUT_OBJS.get(id(obj))
    if e is not None and e[0] is obj:
        return e[1]
    return None


class TList(list):
    """a host list whose mutations are recorded when it is marked as an input object"""
    _vf_container = True

    def _w(self):
        note_write(self)

    def append(self, x): self._w(); list.append(self, x)
    def extend(self, it):
        it = list(it)
        if it:
            self._w()       # (extending by nothing leaves the object as it was)
        list.extend(self, it)
    def insert(self, i, x): self._w(); list.insert(self, i, x)
    def pop(self, *a): self._w(); return list.pop(self, *a)
    def remove(self, x): self._w(); list.remove(self, x)
    def clear(self): self._w(); list.clear(self)
    def sort(self, *a, **k): self._w(); list.sort(self, *a, **k)
    def reverse(self): self._w(); list.reverse(self)
    def __setitem__(self, i, v): self._w(); list.__setitem__(self, i, v)
    def __delitem__(self, i): self._w(); list.__delitem__(self, i)
    def __iadd__(self, o):
        o = list(o)
        if o:
            self._w()
        return list.__iadd__(self, o)
