"""Contracts of sigtools._signatures.embed / _embed (C02 and the C08/C10/C11/C15/C16 clauses on its results).

 _signatures.embed
   post:sound       C02  every non-colliding call the result accepts is accepted by outer, and the surplus arguments
                         outer collects in the star parameters it forwards are accepted by inner
   post:exact       C02  the converse, unless a defaulted positional parameter of outer ends up followed by an inner
                         positional parameter
   raises:only_if_shared_name_or_no_call  C02
   post:bare_outer  C02  outer = (*a, **k) only => the inner parameters unchanged
   law:fold         C02  embed(a, b, c) has the parameters of embed(embed(a, b), c)
   raises:only_ValueError / post:wellformed   C15
   post:meta_*      C10  outer before inner within each kind; outer defaults dropped only when a required inner
                         positional parameter follows; kinds only restricted; annotations untouched
   post:ua_follows  C11
   post:sources_wf / post:sources_exact / post:depths   C08
   frame:*          C16
"""
import itertools

import z3

from vf import sym, spec, harness
from vf.sym import MV, SymName, SymRef, SymInt, SymBool, SymDict, NONEVAL, PyExc, EngineLimit, NameS
from vf.spec import Z3Ops, P, View, CallShape, PO, POK, VP, KWO, VK
from vf.interp import Interp, Inst, IClass
from vf.harness import VC, mk_sig, mk_call, sig_view, pview, run_unit
from .common import FRAME_PROPS, clause, name_term, ua_denotes, stands_of, install_concile_summary, ua_follows_goal, ua_return_goal
from .merge import exc_is, src_entries, key_eq, sym_sig_data, real_sig_data
from .mask import flag_value, same_params_term

U = '_signatures.embed'
C_SOUND = clause(U, 'post:sound', ['C02'], 'B')
C_EXACT = clause(U, 'post:exact', ['C02'], 'B')
C_RAISE = clause(U, 'raises:only_if_shared_name_or_no_call', ['C02'], 'B')
C_BARE = clause(U, 'post:bare_outer', ['C02', 'C09'], 'B')
L_FOLD = clause(U, 'law:fold', ['C02'], 'B')
C_ONLY_VE = clause(U, 'raises:only_ValueError', ['C15'], 'B')
C_WF = clause(U, 'post:wellformed', ['C15'], 'B')
C_META_ORDER = clause(U, 'post:meta_outer_before_inner', ['C10'], 'B')
C_META_DEF = clause(U, 'post:meta_defaults', ['C10'], 'B')
C_META_KIND = clause(U, 'post:meta_kind_only_restricts', ['C10'], 'B')
C_UA = clause(U, 'post:ua_follows', ['C11'], 'B')
C_SRC_WF = clause(U, 'post:sources_wf', ['C08'], 'B')
C_SRC_EXACT = clause(U, 'post:sources_exact', ['C08'], 'B')
C_DEPTHS = clause(U, 'post:depths', ['C08'], 'B')
C_FRAME = clause(U, 'frame:inputs_unchanged', FRAME_PROPS, 'B')
C_FRESH = clause(U, 'frame:fresh_sources', FRAME_PROPS, 'B')


def forwarded_call(call, outer_view, uv, uk):
    """the call shape inner receives: the surplus positional / keyword arguments outer forwards"""
    npos = len(outer_view.pos)
    n_i = z3.If(call.n > npos, call.n - npos, 0) if uv else z3.IntVal(0)
    kwn = [p.name for p in outer_view.kw_passable()]
    cands = []
    if uk:
        for b, t in call.cands:
            cands.append((Z3Ops.And(b, *[Z3Ops.Not(Z3Ops.eq(t, k)) for k in kwn]), t))
    return CallShape(Z3Ops, n_i, cands)


def origin_side(p, outer_ids, inner_ids):
    o = p._d.get('_vf_origin')
    if id(o) in outer_ids:
        return 'outer', o
    if id(o) in inner_ids:
        return 'inner', o
    return None, o


def embed_vcs(env, want):
    r = env['r']
    I = env['interp']
    ctx = r.ctx
    out = []

    def on(c):
        if env.get('extra_callable') and c not in (C_FRAME, C_FRESH, C_ONLY_VE, C_WF, C_DEPTHS):
            return False      # the variant with richer provenance (a callable known to both sides) is stated for the depth map and the frame
        if env.get('bare_first') and c in (C_SRC_WF, C_SRC_EXACT, C_DEPTHS):
            return False      # an input without provenance: the provenance clauses have nothing to say
        return want is None or any(p in want for p in c.props)

    if env['mode'] == 'fold':
        if not on(L_FOLD):
            return out
        a, b = env['runs']
        # the law is stated for inputs whose shared names keep their role (a name that is *args in one input and
        # a named parameter in another makes the INTERMEDIATE embed(a, b) malformed, so the nested form is undefined)
        kept = [spec.roles_kept(Z3Ops, [sig_view(i.sig) for i in env['infos']])]
        if a[0] != b[0]:
            out.append(VC(L_FOLD.full + ':same_outcome', kept, z3.BoolVal(False), L_FOLD.props))
        elif a[0] == 'return':
            t = same_params_term(a[1]._d['_parameters'].plist, b[1]._d['_parameters'].plist)
            out.append(VC(L_FOLD.full + ':parameters', kept, t if t is not None else z3.BoolVal(False), L_FOLD.props))
        else:
            out.append(VC(L_FOLD.full + ':same_outcome', [], z3.BoolVal(True), L_FOLD.props))
        return out
    m = I.module('sigtools._signatures')
    EmptyAnn = m.ns['EmptyAnnotation']
    UP = m.ns['UpgradedParameter']
    outer, inner = env['infos']
    ov, iv = sig_view(outer.sig), sig_view(inner.sig)
    uv, uk = env['flag_values']['use_varargs'], env['flag_values']['use_varkwargs']
    call, ccons = mk_call(outer.names + inner.names)
    env['call'] = call
    fwd = forwarded_call(call, ov, uv, uk)
    rhs = z3.And(spec.accepts(Z3Ops, ov, call), spec.accepts(Z3Ops, iv, fwd))
    rc = spec.role_consistent(Z3Ops, [ov, iv])
    shared = z3.Or(*[Z3Ops.eq(p.name, q.name) for p in ov.named() for q in iv.named()]) if ov.named() and iv.named() else z3.BoolVal(False)
    if on(C_FRAME):
        out.append(VC(C_FRAME.full, [], z3.BoolVal(not ctx.heap_writes), C_FRAME.props))
    if r.outcome == 'raise':
        e = r.exc
        if on(C_ONLY_VE):
            out.append(VC(C_ONLY_VE.full + ':type', [], z3.BoolVal(exc_is(I, e, 'ValueError')), C_ONLY_VE.props))
            if not exc_is(I, e, 'IncompatibleSignatures'):
                out.append(VC(C_ONLY_VE.full + ':incompatible_on_role_consistent', [rc], z3.BoolVal(False), C_ONLY_VE.props))
        if on(C_RAISE) and exc_is(I, e, 'IncompatibleSignatures'):
            out.append(VC(C_RAISE.full, ccons + [z3.Not(shared), rhs], z3.BoolVal(False), C_RAISE.props))
        elif on(C_RAISE):
            # an exception of another class is no better: on role-consistent inputs (a name two inputs share has the same kind in
            # both), without a shared parameter and with a call that outer and inner take, there is a result to return
            out.append(VC(C_RAISE.full + ':' + e.typname, ccons + [rc, z3.Not(shared), rhs], z3.BoolVal(False), C_RAISE.props))
        return out
    res = r.value
    if not (isinstance(res, Inst) and '_parameters' in res._d):
        out.append(VC(C_WF.full + ':is_signature', [], z3.BoolVal(False), C_WF.props))
        return out
    rparams = res._d['_parameters'].plist
    rv = sig_view(res)
    outer_ids = {id(p): i for i, p in enumerate(outer.params)}
    inner_ids = {id(p): i for i, p in enumerate(inner.params)}
    sides = [origin_side(p, outer_ids, inner_ids) for p in rparams]
    known_origin = all(s[0] for s in sides)
    nonc = spec.noncolliding(Z3Ops, rv, [ov, iv], call)
    a_res = spec.accepts(Z3Ops, rv, call)
    if on(C_SOUND):
        out.append(VC(C_SOUND.full, ccons + [nonc, a_res], rhs, C_SOUND.props))
    if on(C_EXACT) and known_origin:
        # outer_defaults_followed: a positional result parameter coming from a DEFAULTED outer parameter precedes
        # a positional result parameter coming from inner
        pos = [(p, s) for p, s in zip(rparams, sides) if p.kind in (PO, POK)]
        excuse = []
        for i, (p, s) in enumerate(pos):
            if s[0] == 'outer' and any(s2[0] == 'inner' for _, s2 in pos[i + 1:]):
                excuse.append(s[1]._d['_default'].has)
        odf = z3.Or(*excuse) if excuse else z3.BoolVal(False)
        out.append(VC(C_EXACT.full, ccons + [nonc, rhs, z3.Not(odf)], a_res, C_EXACT.props))
    if on(C_BARE) and not [p for p in outer.params if p.kind in (PO, POK, KWO)] and ov.V and ov.W and uv and uk:
        t = same_params_term(rparams, inner.params)
        bare = [z3.Not(p._d['_annotation'].has) for p in outer.params]     # a BARE (*args, **kwargs): no annotations
        out.append(VC(C_BARE.full, bare, t if t is not None else z3.BoolVal(False), C_BARE.props))
    if on(C_WF):
        ok = all(isinstance(p, Inst) and UP in p._cls.mro for p in rparams)
        src = res._d.get('sources')
        ok = ok and isinstance(src, SymDict) and src.get('+depths') is not None
        out.append(VC(C_WF.full + ':upgraded_with_depths', [], z3.BoolVal(bool(ok)), C_WF.props))
        out.append(VC(C_WF.full + ':valid', [], spec.wf(Z3Ops, rv), C_WF.props))
    if (on(C_META_ORDER) or on(C_META_DEF) or on(C_META_KIND) or on(C_UA)):
        if not known_origin:
            out.append(VC(C_META_ORDER.full + ':every_parameter_from_an_input', [], z3.BoolVal(False), C_META_ORDER.props))
        else:
            if on(C_META_ORDER):
                ok = True
                for kinds in ((PO, POK), (KWO,)):
                    seq = [(s[0], (outer_ids if s[0] == 'outer' else inner_ids)[id(s[1])]) for p, s in zip(rparams, sides) if p.kind in kinds]
                    lab = [x[0] for x in seq]
                    if 'inner' in lab and 'outer' in lab[lab.index('inner'):]:
                        ok = False
                    if kinds == (PO, POK):
                        for side in ('outer', 'inner'):
                            idx = [x[1] for x in seq if x[0] == side]
                            if idx != sorted(idx):
                                ok = False
                out.append(VC(C_META_ORDER.full, [], z3.BoolVal(ok), C_META_ORDER.props))
            pos = [(p, s) for p, s in zip(rparams, sides) if p.kind in (PO, POK)]
            for i, (p, s) in enumerate(zip(rparams, sides)):
                o = s[1]
                tag = ':%s' % p._d.get('_vf_tag', '?')
                d, od = p._d['_default'], o._d['_default']
                a, oa = p._d['_annotation'], o._d['_annotation']
                if on(C_META_DEF):
                    goal = [z3.Implies(d.has, z3.And(od.has, d.val == od.val)),
                            Z3Ops.eq(name_term(p), name_term(o))]
                    st = stands_of(p)
                    if len(st) <= 1:
                        goal += [a.has == oa.has, z3.Implies(a.has, a.val == oa.val)]
                    else:
                        # a star parameter standing for the inner and the outer star: the conciliation rule
                        anns = [x._d['_annotation'] for x in st]
                        some = z3.Or(*[x.has for x in anns])
                        agree = z3.And(*[z3.Implies(z3.And(x.has, y.has), x.val == y.val) for x, y in itertools.combinations(anns, 2)])
                        goal += [a.has == z3.And(some, agree), z3.Implies(a.has, z3.And(*[z3.Implies(x.has, a.val == x.val) for x in anns]))]
                    if s[0] == 'inner' or p.kind not in (PO, POK):
                        goal.append(d.has == od.has)
                    else:
                        j = [k for k, (q, _) in enumerate(pos) if q is p][0]
                        later_required_inner = [z3.Not(q._d['_default'].has) for q, s2 in pos[j + 1:] if s2[0] == 'inner']
                        goal.append(z3.Implies(z3.And(od.has, z3.Not(d.has)), z3.Or(*later_required_inner) if later_required_inner else z3.BoolVal(False)))
                    out.append(VC(C_META_DEF.full + tag, [], z3.And(*goal), C_META_DEF.props))
                if on(C_META_KIND):
                    ok = p.kind == o.kind or (o.kind == POK and p.kind in (PO, KWO))
                    out.append(VC(C_META_KIND.full + tag, [], z3.BoolVal(ok), C_META_KIND.props))
                if on(C_UA):
                    out.append(VC(C_UA.full + tag, [], ua_follows_goal(p, EmptyAnn, cands=list({id(x): x for x in [o] + stands_of(p)}.values())), C_UA.props))
            if on(C_UA):
                out.append(VC(C_UA.full + ':return', [], ua_return_goal(res, outer.sig, EmptyAnn), C_UA.props))
    src = res._d.get('sources')
    if isinstance(src, SymDict) and (on(C_SRC_WF) or on(C_SRC_EXACT) or on(C_DEPTHS)):
        ent, dep = src_entries(src)
        dep_keys = [k for k, _ in dep.items_] if isinstance(dep, SymDict) else []
        infos = [outer, inner]
        if on(C_SRC_WF):
            for p in rparams:
                out.append(VC(C_SRC_WF.full + ':entry_for:%s' % p._d.get('_vf_tag', '?'), [],
                              z3.Or(*[key_eq(k, name_term(p)) for k, _ in ent]), C_SRC_WF.props))
            for k, lst in ent:
                kt = k.t if isinstance(k, SymName) else k
                tag = ':%s' % (k,)
                out.append(VC(C_SRC_WF.full + ':key_is_parameter' + tag, [], z3.Or(*[key_eq(k, name_term(p)) for p in rparams]), C_SRC_WF.props))
                lst = list(lst)
                out.append(VC(C_SRC_WF.full + ':nonempty' + tag, [], z3.BoolVal(len(lst) > 0), C_SRC_WF.props))
                if len(lst) > 1:
                    out.append(VC(C_SRC_WF.full + ':duplicate_free' + tag, [], z3.Distinct(*[f.t for f in lst]), C_SRC_WF.props))
                for f in lst:
                    out.append(VC(C_SRC_WF.full + ':has_depth' + tag, [], z3.Or(*[f.t == dk.t for dk in dep_keys]), C_SRC_WF.props))
                    declares = z3.Or(*[z3.And(f.t == inf.funcs[0].t, z3.Or(*[Z3Ops.eq(kt, n) for n in inf.names])) for inf in infos])
                    out.append(VC(C_SRC_WF.full + ':declared' + tag, [], declares, C_SRC_WF.props))
        if on(C_SRC_EXACT) and known_origin:
            for p, s in zip(rparams, sides):
                if p.kind not in (PO, POK, KWO):
                    continue
                f_exp = (outer if s[0] == 'outer' else inner).funcs[0]
                for k, lst in ent:
                    goal = z3.And(z3.BoolVal(len(lst) == 1), *[f.t == f_exp.t for f in lst])
                    out.append(VC(C_SRC_EXACT.full + ':%s' % p._d.get('_vf_tag', '?'), [key_eq(k, name_term(p)), z3.Not(shared)], goal, C_SRC_EXACT.props))
        if on(C_DEPTHS) and isinstance(dep, SymDict):
            exp = [(f_.t, d_) for f_, d_ in zip(outer.funcs, outer.depth_terms)] + [(f_.t, d_ + 1) for f_, d_ in zip(inner.funcs, inner.depth_terms)]
            for f, _ in exp:
                out.append(VC(C_DEPTHS.full + ':has', [], z3.Or(*[dk.t == f for dk in dep_keys]), C_DEPTHS.props))
            for dk, dv in dep.items_:
                goal = z3.And(z3.Or(*[z3.And(dk.t == f, sym.zint(dv) == d) for f, d in exp]),
                              *[z3.Implies(dk.t == f, sym.zint(dv) <= d) for f, d in exp])
                out.append(VC(C_DEPTHS.full + ':value:%s' % (dk,), [], goal, C_DEPTHS.props))
    if on(C_FRESH):
        ok = True
        if isinstance(src, SymDict):
            if sym.input_label(src):
                ok = False
            for k, v in src.items_:
                if sym.input_label(v):
                    ok = False
        out.append(VC(C_FRESH.full, [], z3.BoolVal(ok), C_FRESH.props))
    return out


def make_runner(shapes_, mode='embed', want=None, flags=True, bare_first=False, extra_callable=False):
    I = Interp()
    from vf import world as _world
    _world.install_externals(I, {})     # eval(expression, f.__globals__) is the uninterpreted evalin
    install_concile_summary(I)
    m = I.module('sigtools._signatures')
    env = {'interp': I, 'mode': mode}
    embed = m.ns['embed']

    def call_embed(sigs, fl):
        try:
            return ('return', I.call(embed, list(sigs), [(k, v) for k, v in fl.items()]))
        except PyExc as e:
            return ('raise', e)

    def run(ctx, r):
        infos = [mk_sig(I, ctx, 's%d' % i, sh, nfuncs=2 if extra_callable else 1) for i, sh in enumerate(shapes_)]
        env['extra_callable'] = extra_callable
        ctx.add(z3.Distinct(*[i.funcs[0].t for i in infos]))
        if bare_first:
            from vf.harness import strip_provenance
            strip_provenance(infos[0])
        env['bare_first'] = bare_first
        env['infos'] = infos
        env['r'] = r
        r.inputs = infos
        fl = {k: (SymBool(z3.Bool(k)) if flags else True) for k in ('use_varargs', 'use_varkwargs')}
        env['flags'] = fl
        if mode == 'embed':
            oc = call_embed([i.sig for i in infos], fl)
        else:
            a = call_embed([i.sig for i in infos], fl)
            b1 = call_embed([infos[0].sig, infos[1].sig], fl)
            b = call_embed([b1[1], infos[2].sig], fl) if b1[0] == 'return' else b1
            env['runs'] = (a, b)
            oc = a
        env['flag_values'] = {k: flag_value(ctx, v) for k, v in fl.items()}
        r.outcome = oc[0]
        if oc[0] == 'return':
            r.value = oc[1]
        else:
            r.exc = oc[1]
    return run, env


vcs = embed_vcs


def _concrete_case(env, conc):
    infos = env['infos']
    sigs = [conc.build_input(i) for i in infos]
    conc.add_extra_callables(infos, sigs)
    fl = {k: (conc.boolean(v.t) if isinstance(v, SymBool) else bool(v)) for k, v in env['flags'].items()}
    return sigs, fl


def replay(env, vc, model):
    from vf.concrete import Concretizer, sig_str, real_sigtools
    from vf import rt
    real_sigtools()
    from sigtools import _signatures
    conc = Concretizer(model)
    sigs, fl = _concrete_case(env, conc)
    short = vc.name.split('/', 1)[1]
    key = ':'.join(short.split(':')[:2])
    rec = dict(op='embed', mode=env['mode'], inputs=[sig_str(s) for s in sigs], specs=[conc.param_specs(i) for i in env['infos']], flags=fl)
    if env['mode'] == 'embed':
        before = [rt.snapshot_sig(s) for s in sigs]
        oc = rt.run_real(_signatures.embed, *sigs, **fl)
        bad = rt.check_embed(sigs[0], sigs[1], fl['use_varargs'], fl['use_varkwargs'], oc)
        if [rt.snapshot_sig(s) for s in sigs] != before:
            bad.append(('frame:inputs_unchanged', 'input snapshot differs'))
        rec['native_outcome'] = sig_str(oc[1]) if oc[0] == 'return' else repr(oc[1])
    else:
        bad = rt.check_embed_fold(sigs, fl)
    hit = [b for b in bad if b[0].startswith(key)]
    rec['status'] = 'reproduced' if hit else ('other-violation' if bad else 'not-reproduced')
    rec['violated'] = [list(b) for b in (hit or bad)[:8]]
    return rec


def crosscheck(env, r):
    from vf.concrete import Concretizer, real_sigtools
    from vf import rt
    if env['mode'] != 'embed':
        return None
    real_sigtools()
    from sigtools import _signatures
    s = r.ctx.solver
    if s.check() != z3.sat:
        return 'path condition not satisfiable at path end'
    conc = Concretizer(s.model())
    sigs, fl = _concrete_case(env, conc)
    fmap = {}
    for i, sg in zip(env['infos'], sigs):
        for f in sg.sources['+depths']:
            fmap[id(f)] = conc.refkey(i.funcs[0])
    oc = rt.run_real(_signatures.embed, *sigs, **fl)
    desc = 'embed(%s, %r)' % ([str(x) for x in sigs], fl)
    if r.outcome == 'raise':
        if oc[0] != 'raise':
            return 'symbolic raise %s, native returned %s on %s' % (r.exc.typname, oc[1], desc)
        if type(oc[1]).__name__ != r.exc.typname:
            return 'symbolic raise %s, native raise %r on %s' % (r.exc.typname, oc[1], desc)
        return None
    if oc[0] == 'raise':
        return 'symbolic return, native raise %r on %s' % (oc[1], desc)
    a = sym_sig_data(conc, r.value)
    b = real_sig_data(oc[1], lambda f: fmap.get(id(f), '?'))
    if a != b:
        return 'results differ on %s: symbolic %r native %r' % (desc, a, b)
    return None
