"""second solver back end: cvc5 (CLI) on the SMT-LIB dump of a z3 query"""
import os
import subprocess
import tempfile


def cvc5_check(smt2, timeout_s=20):
    with tempfile.NamedTemporaryFile('w', suffix='.smt2', delete=False, dir=os.environ.get('VF_TMP', None)) as f:
        f.write('(set-logic ALL)\n' + smt2)
        path = f.name
    try:
        out = subprocess.run(['/usr/bin/cvc5', '--lang=smt2', '--tlimit=%d' % (timeout_s * 1000), path],
                             capture_output=True, text=True, timeout=timeout_s + 5)
        first = (out.stdout.strip().splitlines() or ['error'])[0]
        return first if first in ('sat', 'unsat', 'unknown') else 'error: ' + (out.stderr.strip()[:200] or first)
    except subprocess.TimeoutExpired:
        return 'timeout'
    finally:
        os.unlink(path)
